package main

// Extension slot A: package `basic` (/repo/basic/key.go) — the library's own
// keyring and key objects — against lean/Saltpack/Model/Basic.lean.
//
// Both sides build the SAME basic keyring from a spec (the ImportBoxKey /
// ImportSigningKey calls in order); the request lines are documented in
// lean/Driver/ExtA.lean.  goExecExtA runs the REAL basic.Keyring /
// basic.SecretKey / basic.EphemeralKeyCreator.

import (
	"bytes"
	"fmt"
	"io"
	"sort"
	"strings"

	"github.com/keybase/saltpack"
	"github.com/keybase/saltpack/basic"
	"verifharness/internal/keys"
	"verifharness/internal/prng"
	"verifharness/internal/script"
)

type bkEntry struct{ pub, sec []byte }

func bkSpec(es []bkEntry) string {
	if len(es) == 0 {
		return "-"
	}
	p := make([]string, len(es))
	for i, e := range es {
		p[i] = keys.Hex(e.pub) + ":" + keys.Hex(e.sec)
	}
	return strings.Join(p, ",")
}

func bkParse(s string) []bkEntry {
	var out []bkEntry
	for _, t := range splitL(s) {
		p := strings.Split(t, ":")
		out = append(out, bkEntry{unhex(p[0]), unhex(p[1])})
	}
	return out
}

// bkRing builds the real keyring by the calls the spec lists.
func bkRing(boxspec, sigspec string) *basic.Keyring {
	k := basic.NewKeyring()
	for _, e := range bkParse(boxspec) {
		var pub, sec [32]byte
		if len(e.pub) != 32 || len(e.sec) != 32 {
			panic("bk spec: box key lengths")
		}
		copy(pub[:], e.pub)
		copy(sec[:], e.sec)
		k.ImportBoxKey(&pub, &sec)
	}
	for _, e := range bkParse(sigspec) {
		var pub [32]byte
		var sec [64]byte
		if len(e.pub) != 32 || len(e.sec) != 64 {
			panic("bk spec: signing key lengths")
		}
		copy(pub[:], e.pub)
		copy(sec[:], e.sec)
		k.ImportSigningKey(&pub, &sec)
	}
	return k
}

func bkHexList(s string) [][]byte {
	var out [][]byte
	for _, t := range splitL(s) {
		out = append(out, unhex(t))
	}
	return out
}

// the box secret keys of a keyring, as the model prints them (unsorted: map order)
func bkAll(k *basic.Keyring) string {
	all := k.GetAllBoxSecretKeys()
	if len(all) == 0 {
		return "-"
	}
	p := make([]string, len(all))
	for i, sk := range all {
		b := sk.(basic.SecretKey)
		p[i] = keys.Hex(b.GetRawPublicKey()[:]) + ":" + keys.Hex(b.GetRawSecretKey()[:])
	}
	return strings.Join(p, ",")
}

// bkCmpAll: exact, except that an `all=<list>` token is compared as a multiset
// (GetAllBoxSecretKeys iterates a Go map).
func bkCmpAll(a, b string) bool {
	norm := func(s string) string {
		f := strings.Fields(s)
		for i, t := range f {
			if strings.HasPrefix(t, "all=") {
				l := strings.Split(t[4:], ",")
				sort.Strings(l)
				f[i] = "all=" + strings.Join(l, ",")
			}
		}
		return strings.Join(f, " ")
	}
	return norm(a) == norm(b)
}

func bkExc(b []byte, err error) string {
	if err != nil {
		return "err:" + script.Class(err)
	}
	return "ok:" + keys.Hex(b)
}

func bkMki(m *saltpack.MessageKeyInfo) string {
	named := "-"
	if len(m.NamedReceivers) > 0 {
		named = keys.HexList(m.NamedReceivers)
	}
	rs := m.ReceiverKey.(basic.SecretKey)
	return fmt.Sprintf("sender=%s anon=%s recvsec=%s ranon=%s named=%s nanon=%d",
		keys.Hex(m.SenderKey.ToKID()), boolS(m.SenderIsAnon), keys.Hex(rs.GetRawSecretKey()[:]),
		boolS(m.ReceiverIsAnon), named, m.NumAnonReceivers)
}

func bkPub(raw []byte) basic.PublicKey {
	var p basic.PublicKey
	copy(p.RawBoxKey[:], raw)
	return p
}

func bkSecret(sec []byte) basic.SecretKey {
	var s, p [32]byte
	copy(s[:], sec)
	copy(p[:], boxPub(sec))
	return basic.NewSecretKey(&p, &s)
}

func bkSigSecret(seed []byte) basic.SigningSecretKey {
	var p [32]byte
	var s [64]byte
	copy(p[:], sigPub(seed))
	copy(s[:], seed)
	copy(s[32:], p[:])
	return basic.NewSigningSecretKey(&p, &s)
}

func goExecExtA(t []string) (string, bool) {
	switch t[0] {
	case "bk.kid":
		kid := unhex(t[1])
		k := basic.NewKeyring()
		show := func(kidder interface{ ToKID() []byte }, isNil bool) string {
			if isNil {
				return "nil"
			}
			return keys.Hex(kidder.ToKID())
		}
		lp := k.LookupBoxPublicKey(kid)
		ie := k.ImportBoxEphemeralKey(kid)
		ls := k.LookupSigningPublicKey(kid)
		return fmt.Sprintf("ok lp=%s ie=%s lsig=%s", show(lp, lp == nil), show(ie, ie == nil), show(ls, ls == nil)), true
	case "bk.lookup":
		k := bkRing(t[1], "-")
		i, sk := k.LookupBoxSecretKey(bkHexList(t[2]))
		if sk == nil {
			return fmt.Sprintf("ok %d nil", i), true
		}
		b := sk.(basic.SecretKey)
		return fmt.Sprintf("ok %d pub=%s sec=%s", i, keys.Hex(b.GetPublicKey().ToKID()), keys.Hex(b.GetRawSecretKey()[:])), true
	case "bk.all":
		return "ok all=" + bkAll(bkRing(t[1], "-")), true
	case "bk.keyops":
		var pub, sec [32]byte
		copy(pub[:], unhex(t[1]))
		copy(sec[:], unhex(t[2]))
		k := basic.NewSecretKey(&pub, &sec)
		peer := bkPub(unhex(t[3]))
		var nonce saltpack.Nonce
		copy(nonce[:], unhex(t[4]))
		msg := unhex(t[5])
		bx := k.Box(peer, nonce, msg)
		pre := k.Precompute(peer)
		praw := pre.(basic.PrecomputedSharedKey)
		sbx := pre.Box(nonce, msg)
		return fmt.Sprintf("ok pub=%s kid=%s hide=%s box=%s rt=%s unbox=%s pre=%s sbox=%s srt=%s sunbox=%s",
			keys.Hex(k.GetRawPublicKey()[:]), keys.Hex(k.GetPublicKey().ToKID()), boolS(k.GetPublicKey().HideIdentity()),
			keys.Hex(bx), bkExc(k.Unbox(peer, nonce, bx)), bkExc(k.Unbox(peer, nonce, msg)), keys.Hex(praw[:]),
			keys.Hex(sbx), bkExc(pre.Unbox(nonce, sbx)), bkExc(pre.Unbox(nonce, msg))), true
	case "bk.sigops":
		k := bkSigSecret(unhex(t[1]))
		msg := unhex(t[2])
		sg, err := k.Sign(msg)
		if err != nil {
			return "err " + script.Class(err), true
		}
		pk := k.GetPublicKey()
		return fmt.Sprintf("ok pub=%s sig=%s verify=%s verify2=%s", keys.Hex(pk.ToKID()), keys.Hex(sg),
			script.Class(pk.Verify(msg, sg)), script.Class(pk.Verify(msg, unhex(t[3])))), true
	case "bk.eph":
		src := parseSource(t[1])
		var sk saltpack.BoxSecretKey
		var err error
		script.With(src, func() { sk, err = basic.EphemeralKeyCreator{}.CreateEphemeralKey() })
		if err != nil {
			if p, ok := sk.(*basic.SecretKey); sk != nil && !(ok && p == nil) {
				return "err " + script.Class(err) + " BUT-A-KEY-WAS-RETURNED", true
			}
			return "err " + script.Class(err), true
		}
		b := sk.(*basic.SecretKey)
		return fmt.Sprintf("ok pub=%s sec=%s reads=%d", keys.Hex(b.GetRawPublicKey()[:]), keys.Hex(b.GetRawSecretKey()[:]), src.Consumed()), true
	case "bk.genbox":
		k := bkRing(t[1], "-")
		src := parseSource(t[2])
		var sk *basic.SecretKey
		var err error
		script.With(src, func() { sk, err = k.GenerateBoxKey() })
		if err != nil {
			extra := ""
			if sk != nil {
				extra = " BUT-A-KEY-WAS-RETURNED"
			}
			return "err " + script.Class(err) + extra + " all=" + bkAll(k), true
		}
		return fmt.Sprintf("ok pub=%s sec=%s reads=%d all=%s", keys.Hex(sk.GetRawPublicKey()[:]), keys.Hex(sk.GetRawSecretKey()[:]), src.Consumed(), bkAll(k)), true
	case "bk.gensig":
		k := bkRing(t[1], t[2])
		src := parseSource(t[3])
		var sk *basic.SigningSecretKey
		var err error
		script.With(src, func() { sk, err = k.GenerateSigningKey() })
		if err != nil {
			extra := ""
			if sk != nil {
				extra = " BUT-A-KEY-WAS-RETURNED"
			}
			return "err " + script.Class(err) + extra + " all=" + bkAll(k), true
		}
		return fmt.Sprintf("ok pub=%s sec=%s reads=%d all=%s", keys.Hex(sk.GetRawPublicKey()[:]), keys.Hex(sk.GetRawSecretKey()[:]), src.Consumed(), bkAll(k)), true
	case "bk.enc.open":
		return bkEncOpen(t), true
	case "bk.sc.open":
		return bkScOpen(t), true
	case "bk.sig.verify":
		return bkVerify(t), true
	case "bk.sig.verifydetached":
		k := bkRing("-", t[2])
		skey, err := saltpack.VerifyDetached(parseValidator(t[1]), unhex(t[4]), unhex(t[3]), k)
		if err != nil {
			return fmt.Sprintf("res %s signer=-", script.Class(err)), true
		}
		return fmt.Sprintf("res ok signer=%s", keys.Hex(skey.ToKID())), true
	case "bk.enc.seal":
		// bk.enc.seal ma mi sender recips src pt — every key object is basic's
		v := version(t[1], t[2])
		var sender saltpack.BoxSecretKey
		if t[3] != "anon" {
			sender = bkSecret(unhex(t[3]))
		}
		var rs []saltpack.BoxPublicKey
		for _, p := range bkHexList(t[4]) {
			rs = append(rs, bkPub(p))
		}
		src := parseSource(t[5])
		pt := unhex(t[6])
		var out []byte
		var err error
		script.With(src, func() {
			if currentWrites != nil && len(rs) > 0 {
				out, err = viaStream(pt, func(w io.Writer) (io.WriteCloser, error) { return saltpack.NewEncryptStream(v, w, sender, rs) })
			} else {
				out, err = saltpack.Seal(v, pt, sender, rs)
			}
		})
		return sealResult(out, err, src), true
	case "bk.sc.seal":
		var sender saltpack.SigningSecretKey
		if t[1] != "anon" {
			sender = bkSigSecret(unhex(t[1]))
		}
		var rs []saltpack.BoxPublicKey
		for _, p := range bkHexList(t[2]) {
			rs = append(rs, bkPub(p))
		}
		src := parseSource(t[3])
		var out []byte
		var err error
		script.With(src, func() {
			out, err = saltpack.SigncryptSeal(unhex(t[4]), basic.EphemeralKeyCreator{}, sender, rs, nil)
		})
		return sealResult(out, err, src), true
	case "bk.sig.attached", "bk.sig.detached":
		v := version(t[1], t[2])
		signer := bkSigSecret(unhex(t[3]))
		src := parseSource(t[4])
		var out []byte
		var err error
		script.With(src, func() {
			if t[0] == "bk.sig.attached" {
				out, err = saltpack.Sign(v, unhex(t[5]), signer)
			} else {
				out, err = saltpack.SignDetached(v, unhex(t[5]), signer)
			}
		})
		return sealResult(out, err, src), true
	}
	return "", false
}

// bk.enc.open valid boxspec msg
func bkEncOpen(t []string) string {
	k := bkRing(t[2], "-")
	msg := unhex(t[3])
	var mki *saltpack.MessageKeyInfo
	var r io.Reader
	var err error
	atOnce := func(pt []byte) string {
		if err != nil {
			return fmt.Sprintf("res %s rel=- -", script.Class(err))
		}
		return fmt.Sprintf("res ok rel=%s %s", keys.Hex(pt), bkMki(mki))
	}
	switch currentEP {
	case "all":
		var pt []byte
		mki, pt, err = saltpack.Open(parseValidator(t[1]), msg, k)
		return atOnce(pt)
	case "arm":
		arm, _ := saltpack.Armor62Seal(msg, saltpack.MessageTypeEncryption, "")
		var pt []byte
		mki, pt, _, err = saltpack.Dearmor62DecryptOpen(parseValidator(t[1]), arm, k)
		return atOnce(pt)
	case "armstream":
		arm, _ := saltpack.Armor62Seal(msg, saltpack.MessageTypeEncryption, "")
		mki, r, _, err = saltpack.NewDearmor62DecryptStream(parseValidator(t[1]), readerFor([]byte(arm)), k)
	default:
		mki, r, err = saltpack.NewDecryptStream(parseValidator(t[1]), msgReader(msg), k)
	}
	if err != nil {
		return fmt.Sprintf("res %s rel=- -", script.Class(err))
	}
	rel, err := readAllCollect(r, 4096)
	m := "-"
	if err == nil {
		m = bkMki(mki)
	}
	return fmt.Sprintf("res %s rel=%s %s", script.Class(err), keys.Hex(rel), m)
}

// bk.sc.open boxspec resolver msg
func bkScOpen(t []string) string {
	k := bkRing(t[1], "-")
	msg := unhex(t[3])
	var spk saltpack.SigningPublicKey
	var r io.Reader
	var err error
	snd := func() string {
		if spk == nil {
			return "anon"
		}
		return keys.Hex(spk.ToKID())
	}
	atOnce := func(pt []byte) string {
		if err != nil {
			return fmt.Sprintf("res %s rel=- sender=-", script.Class(err))
		}
		return fmt.Sprintf("res ok rel=%s sender=%s", keys.Hex(pt), snd())
	}
	switch currentEP {
	case "all":
		var pt []byte
		spk, pt, err = saltpack.SigncryptOpen(msg, k, parseResolver(t[2]))
		return atOnce(pt)
	case "arm":
		arm, _ := saltpack.Armor62Seal(msg, saltpack.MessageTypeEncryption, "")
		var pt []byte
		spk, pt, _, err = saltpack.Dearmor62SigncryptOpen(arm, k, parseResolver(t[2]))
		return atOnce(pt)
	case "armstream":
		arm, _ := saltpack.Armor62Seal(msg, saltpack.MessageTypeEncryption, "")
		spk, r, _, err = saltpack.NewDearmor62SigncryptOpenStream(readerFor([]byte(arm)), k, parseResolver(t[2]))
	default:
		spk, r, err = saltpack.NewSigncryptOpenStream(msgReader(msg), k, parseResolver(t[2]))
	}
	if err != nil {
		return fmt.Sprintf("res %s rel=- sender=-", script.Class(err))
	}
	rel, err := readAllCollect(r, 4096)
	s := "-"
	if err == nil {
		s = snd()
	}
	return fmt.Sprintf("res %s rel=%s sender=%s", script.Class(err), keys.Hex(rel), s)
}

// bk.sig.verify valid sigspec msg
func bkVerify(t []string) string {
	k := bkRing("-", t[2])
	msg := unhex(t[3])
	var skey saltpack.SigningPublicKey
	var r io.Reader
	var err error
	atOnce := func(pt []byte) string {
		if err != nil {
			return fmt.Sprintf("res %s rel=- signer=-", script.Class(err))
		}
		return fmt.Sprintf("res ok rel=%s signer=%s", keys.Hex(pt), keys.Hex(skey.ToKID()))
	}
	switch currentEP {
	case "all":
		var pt []byte
		skey, pt, err = saltpack.Verify(parseValidator(t[1]), msg, k)
		return atOnce(pt)
	case "arm":
		arm, _ := saltpack.Armor62Seal(msg, saltpack.MessageTypeAttachedSignature, "")
		var pt []byte
		skey, pt, _, err = saltpack.Dearmor62Verify(parseValidator(t[1]), arm, k)
		return atOnce(pt)
	case "armstream":
		arm, _ := saltpack.Armor62Seal(msg, saltpack.MessageTypeAttachedSignature, "")
		skey, r, _, err = saltpack.NewDearmor62VerifyStream(parseValidator(t[1]), readerFor([]byte(arm)), k)
	default:
		skey, r, err = saltpack.NewVerifyStream(parseValidator(t[1]), msgReader(msg), k)
	}
	if err != nil {
		return fmt.Sprintf("res %s rel=- signer=-", script.Class(err))
	}
	rel, err := readAllCollect(r, 4096)
	s := "-"
	if err == nil {
		s = keys.Hex(skey.ToKID())
	}
	return fmt.Sprintf("res %s rel=%s signer=%s", script.Class(err), keys.Hex(rel), s)
}

// ---------------------------------------------------------------------------
// the decoded-packets route for the bk.* receivers

func bkFallback(line string) func() string {
	return func() string {
		ep := ""
		t := strings.Fields(line)
		if len(t) > 1 && strings.HasPrefix(t[len(t)-1], "ep=") {
			ep = " " + t[len(t)-1]
			t = t[:len(t)-1]
		}
		switch t[0] {
		case "bk.enc.open":
			hdr, hf, items, tail := listingTokens("enc", unhex(t[3]))
			return fmt.Sprintf("bk.enc.openp %s %s %s %s %s %s", t[1], t[2], hdr, hf, items, tail) + ep
		case "bk.sc.open":
			hdr, hf, items, tail := listingTokens("signcrypt", unhex(t[3]))
			return fmt.Sprintf("bk.sc.openp %s %s %s %s %s %s", t[1], t[2], hdr, hf, items, tail) + ep
		case "bk.sig.verify":
			hdr, hf, items, tail := listingTokens("sig", unhex(t[3]))
			return fmt.Sprintf("bk.sig.verifyp %s %s %s %s %s %s", t[1], t[2], hdr, hf, items, tail) + ep
		case "bk.sig.verifydetached":
			sigmsg := unhex(t[3])
			hdr, hf, _, _ := listingTokens("sig", sigmsg)
			l := saltpack.VerifListPackets("det", sigmsg)
			sg := "E"
			if l.HeaderState == "ok" {
				if l.DetachedSigErr == nil {
					sg = "S:" + keys.Hex(l.DetachedSig)
				} else if l.DetachedSigErr != io.EOF {
					sg = "R"
				}
			}
			return fmt.Sprintf("bk.sig.verifydetachedp %s %s %s %s %s %s", t[1], t[2], hdr, hf, sg, t[4])
		}
		return ""
	}
}

// ---------------------------------------------------------------------------
// generators

// honest entry for a secret
func bkHonest(sec []byte) bkEntry { return bkEntry{boxPub(sec), sec} }

func bkShuffle(r *prng.R, es []bkEntry) []bkEntry {
	out := append([]bkEntry(nil), es...)
	for i := len(out) - 1; i > 0; i-- {
		j := r.Intn(i + 1)
		out[i], out[j] = out[j], out[i]
	}
	return out
}

// last-import-wins oracle for LookupBoxSecretKey, written independently of model and code
func bkLookupOracle(es []bkEntry, kids [][]byte) string {
	m := map[string]bkEntry{}
	for _, e := range es {
		m[string(e.pub)] = e
	}
	for i, kid := range kids {
		p := make([]byte, 32)
		copy(p, kid)
		if e, ok := m[string(p)]; ok {
			return fmt.Sprintf("ok %d pub=%s sec=%s", i, keys.Hex(e.pub), keys.Hex(e.sec))
		}
	}
	return "ok -1 nil"
}

func genBasicLookups(ctx *Ctx, emit func(Case)) {
	r := ctx.R.Fork()
	// kidToPublicKey through the three never-nil lookups, every interesting length
	for _, n := range []int{0, 1, 2, 16, 31, 32, 33, 40, 64, 65, 100} {
		line := "bk.kid " + hexOrDash(r.Bytes(n))
		out := goExec(line)
		emit(Case{Stream: "basic.kid", Line: line, GoOut: out, Branch: fmt.Sprintf("len=%d", n),
			Direct: func() string {
				if strings.Contains(out, "nil") {
					return "a basic.Keyring lookup returned nil: " + line + " -> " + out
				}
				return ""
			}})
	}
	// LookupBoxSecretKey
	for c := 0; c < ctx.N(70, 1200); c++ {
		n := prng.Pick(r, 0, 1, 1, 2, 3, 3, 5)
		var es []bkEntry
		for i := 0; i < n; i++ {
			e := bkHonest(r.Bytes(32))
			switch r.Intn(8) {
			case 0: // a public key that does not belong to the secret
				e.pub = r.Bytes(32)
			case 1: // a public key ending in zero bytes: a SHORT kid can name it
				z := 1 + r.Intn(4)
				for j := 32 - z; j < 32; j++ {
					e.pub[j] = 0
				}
			case 2: // re-import of an earlier public key with another secret: the map entry is overwritten
				if len(es) > 0 {
					e.pub = es[r.Intn(len(es))].pub
				}
			}
			es = append(es, e)
		}
		nk := prng.Pick(r, 0, 1, 1, 2, 3, 4, 6)
		var kids [][]byte
		kind := ""
		for i := 0; i < nk; i++ {
			var kid []byte
			k := r.Intn(9)
			switch {
			case k <= 2 && len(es) > 0: // present
				kid = append([]byte(nil), es[r.Intn(len(es))].pub...)
				kind += "p"
			case k == 3 && len(es) > 0: // present, with trailing bytes (too long: truncated by copy)
				kid = append(append([]byte(nil), es[r.Intn(len(es))].pub...), r.Bytes(1+r.Intn(3))...)
				kind += "L"
			case k == 4 && len(es) > 0: // present with its trailing zero bytes cut off (too short: padded by copy)
				kid = append([]byte(nil), es[r.Intn(len(es))].pub...)
				for len(kid) > 0 && kid[len(kid)-1] == 0 {
					kid = kid[:len(kid)-1]
				}
				if len(kid) == 32 {
					kid = kid[:31] // now absent (unless byte 31 was 0)
				}
				kind += "S"
			case k == 5 && len(kids) > 0: // duplicate of an earlier kid
				kid = append([]byte(nil), kids[r.Intn(len(kids))]...)
				kind += "d"
			case k == 6: // absent, wrong length
				kid = r.Bytes(prng.Pick(r, 1, 31, 33, 64))
				kind += "w"
			default: // absent
				kid = r.Bytes(32)
				kind += "a"
			}
			kids = append(kids, kid)
		}
		if len(kids) == 1 && len(kids[0]) == 0 {
			continue
		}
		ks := make([]string, len(kids))
		for i, k := range kids {
			ks[i] = hexOrDash(k)
		}
		kl := "-"
		if len(ks) > 0 {
			kl = strings.Join(ks, ",")
		}
		line := fmt.Sprintf("bk.lookup %s %s", bkSpec(es), kl)
		out := goExec(line)
		emit(Case{Stream: "basic.lookup", Line: line, GoOut: out, Branch: fmt.Sprintf("keys=%d/kids=%s/%s", len(es), kind, strings.Fields(out)[1]),
			Direct: func() string {
				if want := bkLookupOracle(es, kids); want != out {
					return fmt.Sprintf("basic.Keyring.LookupBoxSecretKey: got %q, the first kid whose 32-byte copy is an imported public key gives %q; request %s", out, want, line)
				}
				return ""
			}})
	}
	// every position of a 4-key ring, kid list naming every key in reverse order
	{
		var es []bkEntry
		for i := 0; i < 4; i++ {
			es = append(es, bkHonest(r.Bytes(32)))
		}
		for i := range es {
			for j := range es {
				line := fmt.Sprintf("bk.lookup %s %s,%s,%s", bkSpec(es), keys.Hex(r.Bytes(32)), keys.Hex(es[i].pub), keys.Hex(es[j].pub))
				out := goExec(line)
				emit(Case{Stream: "basic.lookup", Line: line, GoOut: out, Branch: fmt.Sprintf("positions/%d.%d", i, j)})
			}
		}
	}
	// GetAllBoxSecretKeys
	for c := 0; c < ctx.N(12, 100); c++ {
		n := prng.Pick(r, 0, 1, 2, 3, 6)
		var es []bkEntry
		for i := 0; i < n; i++ {
			e := bkHonest(r.Bytes(32))
			if len(es) > 0 && r.Intn(4) == 0 {
				e.pub = es[r.Intn(len(es))].pub
			}
			es = append(es, e)
		}
		line := "bk.all " + bkSpec(es)
		out := goExec(line)
		emit(Case{Stream: "basic.all", Line: line, GoOut: out, Cmp: bkCmpAll, Branch: fmt.Sprintf("imports=%d", n)})
	}
}

func genBasicKeyObjects(ctx *Ctx, emit func(Case)) {
	r := ctx.R.Fork()
	for c := 0; c < ctx.N(12, 120); c++ {
		sec := r.Bytes(32)
		pub := boxPub(sec)
		if r.Intn(4) == 0 {
			pub = r.Bytes(32)
		}
		line := fmt.Sprintf("bk.keyops %s %s %s %s %s", keys.Hex(pub), keys.Hex(sec), keys.Hex(boxPub(r.Bytes(32))), keys.Hex(r.Bytes(24)),
			hexOrDash(r.Bytes(prng.Pick(r, 0, 1, 15, 16, 17, 40))))
		out := goExec(line)
		emit(Case{Stream: "basic.keyops", Line: line, GoOut: out, Branch: "box/unbox/precompute"})
	}
	for c := 0; c < ctx.N(8, 60); c++ {
		seed := r.Bytes(32)
		msg := r.Bytes(prng.Pick(r, 0, 1, 33, 100))
		other := r.Bytes(prng.Pick(r, 0, 63, 64, 65))
		if r.Intn(3) == 0 { // the genuine signature of another message
			s2, _ := bkSigSecret(seed).Sign(append([]byte{1}, msg...))
			other = s2
		}
		line := fmt.Sprintf("bk.sigops %s %s %s", keys.Hex(seed), hexOrDash(msg), hexOrDash(other))
		out := goExec(line)
		emit(Case{Stream: "basic.sigops", Line: line, GoOut: out, Branch: "sign/verify"})
	}
}

// scripts for one 32-byte io.ReadFull, clean and faulty
func bkSeedScripts(r *prng.R) []struct {
	label string
	src   *script.Source
} {
	type S = struct {
		label string
		src   *script.Source
	}
	d := r.Bytes(32)
	mk := func(rs ...script.Read) *script.Source { return &script.Source{Reads: rs} }
	return []S{
		{"one-read", mk(script.Read{Data: d})},
		{"1+31", mk(script.Read{Data: d[:1]}, script.Read{Data: d[1:]})},
		{"31+1", mk(script.Read{Data: d[:31]}, script.Read{Data: d[31:]})},
		{"10+10+12", mk(script.Read{Data: d[:10]}, script.Read{Data: d[10:20]}, script.Read{Data: d[20:]})},
		{"bytewise", func() *script.Source {
			s := &script.Source{}
			for i := range d {
				s.Reads = append(s.Reads, script.Read{Data: d[i : i+1]})
			}
			return s
		}()},
		{"more-follows", mk(script.Read{Data: d}, script.Read{Data: r.Bytes(32)})},
		{"offered-40", mk(script.Read{Data: append(append([]byte(nil), d...), r.Bytes(8)...)})},
		{"completing-read-with-error", mk(script.Read{Data: d, Err: true})},
		{"16+16-with-error", mk(script.Read{Data: d[:16]}, script.Read{Data: d[16:], Err: true})},
		{"empty-script", mk()},
		{"error-no-data", mk(script.Read{Err: true})},
		{"short-then-error", mk(script.Read{Data: d[:31], Err: true})},
		{"short-then-end", mk(script.Read{Data: d[:31]})},
		{"16-then-error", mk(script.Read{Data: d[:16]}, script.Read{Err: true})},
		{"transient-error-then-data", mk(script.Read{Err: true}, script.Read{Data: d})},
		{"1-byte-with-error-then-data", mk(script.Read{Data: d[:1], Err: true}, script.Read{Data: d[1:]})},
	}
}

// the first 32 data bytes a script offers before its first failure, or nil
func bkFirst32(src *script.Source) []byte {
	var got []byte
	for _, rd := range src.Reads {
		need := 32 - len(got)
		d := rd.Data
		if len(d) > need {
			d = d[:need]
		}
		got = append(got, d...)
		if len(got) == 32 {
			return got
		}
		if rd.Err {
			return nil
		}
	}
	return nil
}

func genBasicCreator(ctx *Ctx, emit func(Case)) {
	r := ctx.R.Fork()
	for round := 0; round < ctx.N(1, 12); round++ {
		for _, s := range bkSeedScripts(r) {
			s := s
			// EphemeralKeyCreator
			line := "bk.eph " + s.src.Spec()
			out := goExec(line)
			emit(Case{Stream: "basic.eph", Line: line, GoOut: out, Branch: s.label + "/" + strings.Fields(out)[0],
				Direct: func() string {
					want := bkFirst32(s.src)
					if strings.Contains(out, "BUT-A-KEY") {
						return "basic.EphemeralKeyCreator returned a key together with an error: " + line
					}
					if want == nil {
						if !strings.HasPrefix(out, "err") {
							return fmt.Sprintf("basic.EphemeralKeyCreator made a key although the source failed before 32 bytes: %s -> %s", line, out)
						}
						return ""
					}
					exp := fmt.Sprintf("ok pub=%s sec=%s", keys.Hex(boxPub(want)), keys.Hex(want))
					if !strings.HasPrefix(out, exp+" ") {
						return fmt.Sprintf("basic.EphemeralKeyCreator: the key is not the first 32 bytes of the source: %s -> %s", line, out)
					}
					return ""
				}})
			// Keyring.GenerateBoxKey into a ring of 0..2 keys (sometimes the very key it will generate)
			var es []bkEntry
			for i := r.Intn(3); i > 0; i-- {
				es = append(es, bkHonest(r.Bytes(32)))
			}
			if w := bkFirst32(s.src); w != nil && r.Intn(3) == 0 {
				es = append(es, bkEntry{boxPub(w), r.Bytes(32)}) // same public key, other secret: overwritten
			}
			line2 := fmt.Sprintf("bk.genbox %s %s", bkSpec(es), s.src.Spec())
			out2 := goExec(line2)
			emit(Case{Stream: "basic.genbox", Line: line2, GoOut: out2, Cmp: bkCmpAll, Branch: s.label + "/" + strings.Fields(out2)[0],
				Direct: func() string {
					if strings.Contains(out2, "BUT-A-KEY") {
						return "basic.Keyring.GenerateBoxKey returned a key together with an error: " + line2
					}
					return ""
				}})
			// Keyring.GenerateSigningKey
			line3 := fmt.Sprintf("bk.gensig %s - %s", bkSpec(es), s.src.Spec())
			out3 := goExec(line3)
			emit(Case{Stream: "basic.gensig", Line: line3, GoOut: out3, Cmp: bkCmpAll, Branch: s.label + "/" + strings.Fields(out3)[0],
				Direct: func() string {
					if strings.Contains(out3, "BUT-A-KEY") {
						return "basic.Keyring.GenerateSigningKey returned a key together with an error: " + line3
					}
					return ""
				}})
		}
	}
}

// bkMutationCases: like mutationCases, for bk.* request lines
func bkMutationCases(stream string, f *family, muts []mutation, emit func(Case)) {
	for mi, m := range muts {
		m := m
		line := f.openLine(m.msg)
		if mi%4 != 0 {
			line += " ep=" + []string{"all", "arm", "armstream"}[mi%3]
		}
		out := goExec(line)
		lbl := m.label
		if i := strings.IndexAny(lbl, "0123456789"); i > 0 && (lbl[0] == 'p' || lbl[0] == 'f') {
			lbl = lbl[:1] + lbl[strings.Index(lbl, "."):]
		}
		emit(Case{Stream: stream, Line: line, GoOut: out, Cmp: resCmp, Fallback: bkFallback(line),
			Branch: fmt.Sprintf("%s.v%d/%s/%s", f.mode, f.major, lbl, resClass(out)),
			Direct: func() string {
				if strings.Contains(line, " ep=a") && !strings.Contains(line, "ep=armstream") && resClass(out) != "ok" && len(resReleased(out)) != 0 {
					return "an all-at-once entry point returned bytes together with an error: " + trunc(line, 600)
				}
				return authPredicate(f, m.label, m.msg, out)
			}})
	}
}

func bkSomeMutations(ctx *Ctx, r *prng.R, f *family, quickN, thoroughN int) []mutation {
	all := allMutations(ctx, r, f, false)
	var muts []mutation
	for _, g := range f.msgs {
		muts = append(muts, mutation{"genuine", g.msg})
	}
	n := ctx.N(quickN, thoroughN)
	if n >= len(all) {
		return append(muts, all...)
	}
	step := len(all) / n
	for i := r.Intn(step + 1); i < len(all); i += step {
		muts = append(muts, all[i])
	}
	return muts
}

// Open with the real basic.Keyring: genuine messages at every recipient position, rings with other
// keys in every import order, mutated and forged messages, rings without a key
func genBasicEncOpen(ctx *Ctx, emit func(Case)) {
	r := ctx.R.Fork()
	for fi := 0; fi < ctx.N(6, 40); fi++ {
		nr := prng.Pick(r, 1, 2, 3, 4)
		c := encFamilyCfg{major: 1 + fi%2, anon: r.Intn(4) == 0, nRecips: nr, openerPos: r.Intn(nr), hidden: randHidden(r, nr),
			bs: prng.Pick(r, 5, 16, 64), ptLens: []int{prng.Pick(r, 0, 1, 5, 33), prng.Pick(r, 2, 17, 40)}}
		f, secs := buildEncFamily(r, c)
		// the ring: the opener's key, foreign keys, and other recipients' keys as long as the
		// outcome does not depend on Go's map order (two HIDDEN recipients in one ring: see basic.enc.open.order)
		es := []bkEntry{bkHonest(secs[c.openerPos])}
		for i := r.Intn(3); i > 0; i-- {
			es = append(es, bkHonest(r.Bytes(32)))
		}
		for i := range secs {
			if i != c.openerPos && !c.hidden[i] && r.Intn(3) == 0 {
				es = append(es, bkHonest(secs[i]))
			}
		}
		if r.Intn(4) == 0 { // an entry that is overwritten by the genuine one
			es = append([]bkEntry{{boxPub(secs[c.openerPos]), r.Bytes(32)}}, es...)
		} else {
			es = bkShuffle(r, es)
		}
		spec := bkSpec(es)
		f.openLine = func(msg []byte) string { return fmt.Sprintf("bk.enc.open known %s %s", spec, keys.Hex(msg)) }
		bkMutationCases("basic.enc.open", f, bkSomeMutations(ctx, r, f, 14, 120), emit)
		// every position
		for i := range secs {
			i := i
			ring := bkShuffle(r, []bkEntry{bkHonest(secs[i]), bkHonest(r.Bytes(32))})
			g := f.msgs[0]
			line := fmt.Sprintf("bk.enc.open known %s %s", bkSpec(ring), keys.Hex(g.msg))
			out := goExec(line)
			emit(Case{Stream: "basic.enc.open.genuine", Line: line, GoOut: out, Cmp: resCmp, Fallback: bkFallback(line),
				Branch: fmt.Sprintf("v%d/pos=%d/hidden=%v/%s", c.major, i, c.hidden[i], resClass(out)),
				Direct: func() string {
					wantS := f.sender
					if resClass(out) != "ok" || !bytes.Equal(resReleased(out), g.pt) ||
						!strings.Contains(out, "recvsec="+keys.Hex(secs[i])+" ") || (wantS != "" && !strings.Contains(out, "sender="+wantS+" ")) ||
						!strings.Contains(out, "ranon="+boolS(c.hidden[i])+" ") {
						return fmt.Sprintf("encryption round trip with basic.Keyring fails: recipient_index=%d hidden=%v outcome=%s request=%s", i, c.hidden[i], trunc(out, 300), trunc(line, 400))
					}
					return ""
				}})
		}
		// no key of the ring is a recipient's
		{
			ring := []bkEntry{bkHonest(r.Bytes(32)), bkHonest(r.Bytes(32))}[:1+r.Intn(2)]
			if r.Intn(3) == 0 {
				ring = nil
			}
			line := fmt.Sprintf("bk.enc.open known %s %s", bkSpec(ring), keys.Hex(f.msgs[0].msg))
			out := goExec(line)
			emit(Case{Stream: "basic.enc.open.nokey", Line: line, GoOut: out, Cmp: resCmp, Fallback: bkFallback(line), Branch: resClass(out),
				Direct: func() string {
					if resClass(out) != "no-decryption-key" || len(resReleased(out)) != 0 {
						return fmt.Sprintf("a basic.Keyring without any recipient key got %q instead of no-decryption-key: %s", trunc(out, 200), trunc(line, 300))
					}
					return ""
				}})
		}
		// the keys of ALL recipients in one ring: which hidden recipient the message opens as depends on
		// Go's map iteration order — plaintext, sender and flags do not (C01_roundtrip_basic: ∃ i' sk')
		if nr > 1 {
			var ring []bkEntry
			for _, s := range secs {
				ring = append(ring, bkHonest(s))
			}
			g := f.msgs[len(f.msgs)-1]
			line := fmt.Sprintf("bk.enc.open known %s %s", bkSpec(bkShuffle(r, ring)), keys.Hex(g.msg))
			out := goExec(line)
			drop := func(s string) string {
				fs := strings.Fields(s)
				for i, t := range fs {
					if strings.HasPrefix(t, "recvsec=") {
						fs[i] = "recvsec=*"
					}
				}
				return strings.Join(fs, " ")
			}
			emit(Case{Stream: "basic.enc.open.order", Line: line, GoOut: out, Fallback: bkFallback(line),
				Cmp: func(a, b string) bool {
					if strings.Contains(a, "ranon=true") {
						return resCmp(drop(a), drop(b))
					}
					return resCmp(a, b)
				},
				Branch: fmt.Sprintf("v%d/recips=%d/%s", c.major, nr, resClass(out)),
				Direct: func() string {
					if resClass(out) != "ok" || !bytes.Equal(resReleased(out), g.pt) {
						return fmt.Sprintf("a basic.Keyring holding every recipient key does not open the message: %s -> %s", trunc(line, 300), trunc(out, 200))
					}
					return ""
				}})
		}
	}
	// the excluded point `Honest` of C01_roundtrip_basic: ImportBoxKey(pub of a recipient, ANOTHER secret).
	// A visible recipient is found by its key id and the wrong secret fails to unbox (the key object's
	// error, not no-decryption-key); a hidden recipient is tried by secret only and is not found.
	for c := 0; c < ctx.N(6, 40); c++ {
		hidden := c%2 == 1
		f, secs := buildEncFamily(r, encFamilyCfg{major: 1 + (c/2)%2, anon: c%3 == 0, nRecips: 2, openerPos: c % 2,
			hidden: []bool{hidden, hidden}, bs: 16, ptLens: []int{20}})
		ring := bkShuffle(r, []bkEntry{{boxPub(secs[c%2]), r.Bytes(32)}, bkHonest(r.Bytes(32))})
		line := fmt.Sprintf("bk.enc.open known %s %s", bkSpec(ring), keys.Hex(f.msgs[0].msg))
		out := goExec(line)
		want := "decryption-failed"
		if hidden {
			want = "no-decryption-key"
		}
		emit(Case{Stream: "basic.enc.open.dishonest", Line: line, GoOut: out, Fallback: bkFallback(line), // compared EXACTLY, error class included
			Branch: fmt.Sprintf("hidden=%v/%s", hidden, resClass(out)),
			Direct: func() string {
				if resClass(out) != want || len(resReleased(out)) != 0 {
					return fmt.Sprintf("observation: a basic.Keyring holding (recipient's public key, another secret) answered %s, expected %s: %s", resClass(out), want, trunc(line, 300))
				}
				return ""
			}})
	}
	// the excluded point `hlen` of C01_roundtrip_basic: a recipient key object whose ToKID() is not 32 bytes
	// (the raw key followed by extra bytes / with trailing zero bytes cut): basic.Keyring's copy-into-array
	// lookup finds the key all the same
	for c := 0; c < ctx.N(4, 30); c++ {
		c := c
		sec := r.Bytes(32)
		pub := boxPub(sec)
		kid := append(append([]byte(nil), pub...), r.Bytes(1+r.Intn(3))...)
		what := "kid=raw+extra"
		if c%2 == 1 {
			for pub[31] != 0 { // a key whose last byte is zero, named by its first 31 bytes
				sec = r.Bytes(32)
				pub = boxPub(sec)
			}
			kid = append([]byte(nil), pub[:31]...)
			what = "kid=raw-without-trailing-zero"
		}
		creator := &keys.EphCreator{Secret: r.Bytes(32)}
		rcpt := keys.PublicFromRaw(pub, false, creator)
		rcpt.KID = kid
		pt := r.Bytes(20)
		v := saltpack.Version1()
		if c%4 >= 2 {
			v = saltpack.Version2()
		}
		msg, err := saltpack.Seal(v, pt, keys.NewBoxSecret(r.Bytes(32), false, nil, creator), []saltpack.BoxPublicKey{rcpt})
		if err != nil {
			continue
		}
		line := fmt.Sprintf("bk.enc.open known %s %s", bkSpec([]bkEntry{bkHonest(sec)}), keys.Hex(msg))
		out := goExec(line)
		emit(Case{Stream: "basic.enc.open.kidlen", Line: line, GoOut: out, Cmp: resCmp, Fallback: bkFallback(line), Branch: what + "/" + resClass(out),
			Direct: func() string {
				if resClass(out) != "ok" || !bytes.Equal(resReleased(out), pt) {
					return fmt.Sprintf("observation (%s): the message does not open: %s", what, trunc(out, 200))
				}
				return ""
			}})
	}
}

// bkBuildScFamily: buildScFamily that also returns the recipients' secrets (box recipients only are
// openable by a basic keyring without resolver)
func bkBuildScFamily(r *prng.R, anon bool, kinds string, bs int, ptLens []int) (*family, [][]byte, [][]byte, string) {
	signer := r.Bytes(32)
	n := len(kinds)
	secs := make([][]byte, n)
	idents := make([][]byte, n)
	rs := make([]string, n)
	for i := range secs {
		secs[i] = r.Bytes(32)
		if kinds[i] == 'b' {
			rs[i] = "b:" + keys.Hex(boxPub(secs[i]))
		} else {
			idents[i] = r.Bytes(prng.Pick(r, 32, 32, 8, 40))
			rs[i] = "s:" + keys.Hex(secs[i]) + ":" + keys.Hex(idents[i])
		}
	}
	snd := keys.Hex(signer)
	if anon {
		snd = "anon"
	}
	f := &family{mode: "sc", major: 2, named: !anon}
	f.sender = keys.Hex(sigPub(signer))
	if anon {
		f.sender = "anon"
	}
	for _, pl := range ptLens {
		eph, pk, pt := r.Bytes(32), r.Bytes(32), r.Bytes(pl)
		line := fmt.Sprintf("sc.sealwith %s %s %s %s %d %s", snd, strings.Join(rs, ","), keys.Hex(eph), keys.Hex(pk), bs, keys.Hex(pt))
		msg := mustOK(askGen(line), line)
		f.msgs = append(f.msgs, &genuineMsg{msg: msg, pt: pt, payloadKey: pk})
	}
	return f, secs, idents, f.sender
}

func genBasicScOpen(ctx *Ctx, emit func(Case)) {
	r := ctx.R.Fork()
	for fi := 0; fi < ctx.N(6, 40); fi++ {
		kinds := prng.Pick(r, "b", "bb", "bs", "sb", "bbs", "sbb", "bbbb")
		f, secs, idents, want := bkBuildScFamily(r, r.Intn(4) == 0, kinds, prng.Pick(r, 7, 32), []int{prng.Pick(r, 0, 1, 9, 40), prng.Pick(r, 3, 20)})
		var boxPos []int
		for i := range kinds {
			if kinds[i] == 'b' {
				boxPos = append(boxPos, i)
			}
		}
		opener := boxPos[r.Intn(len(boxPos))]
		for gi := range f.msgs {
			f.msgs[gi].openerPos = opener
		}
		// ring: the opener's key, foreign keys, possibly other recipients' keys (GetAllBoxSecretKeys is
		// iterated in map order, but tryBoxSecretKeys walks the HEADER entries outermost: the outcome
		// does not depend on that order)
		es := []bkEntry{bkHonest(secs[opener])}
		for i := r.Intn(3); i > 0; i-- {
			es = append(es, bkHonest(r.Bytes(32)))
		}
		for _, i := range boxPos {
			if i != opener && r.Intn(2) == 0 {
				es = append(es, bkHonest(secs[i]))
			}
		}
		spec := bkSpec(bkShuffle(r, es))
		f.openLine = func(msg []byte) string { return fmt.Sprintf("bk.sc.open %s none %s", spec, keys.Hex(msg)) }
		bkMutationCases("basic.sc.open", f, bkSomeMutations(ctx, r, f, 12, 100), emit)
		g := f.msgs[0]
		for _, i := range boxPos {
			i := i
			line := fmt.Sprintf("bk.sc.open %s none %s", bkSpec(bkShuffle(r, []bkEntry{bkHonest(secs[i]), bkHonest(r.Bytes(32))})), keys.Hex(g.msg))
			out := goExec(line)
			emit(Case{Stream: "basic.sc.open.genuine", Line: line, GoOut: out, Cmp: resCmp, Fallback: bkFallback(line),
				Branch: fmt.Sprintf("kinds=%s/pos=%d/%s", kinds, i, resClass(out)),
				Direct: func() string {
					if resClass(out) != "ok" || !bytes.Equal(resReleased(out), g.pt) || !strings.HasSuffix(out, "sender="+want) {
						return fmt.Sprintf("signcryption round trip with basic.Keyring fails: kinds=%s recipient_index=%d outcome=%s request=%s", kinds, i, trunc(out, 200), trunc(line, 400))
					}
					return ""
				}})
		}
		// symmetric-key recipients: an EMPTY or foreign basic keyring plus a resolver
		for i := range kinds {
			if kinds[i] != 's' {
				continue
			}
			ring := []bkEntry{}
			if r.Bool() {
				ring = append(ring, bkHonest(r.Bytes(32)))
			}
			line := fmt.Sprintf("bk.sc.open %s map:%s=%s %s", bkSpec(ring), keys.Hex(idents[i]), keys.Hex(secs[i]), keys.Hex(g.msg))
			out := goExec(line)
			emit(Case{Stream: "basic.sc.open.genuine", Line: line, GoOut: out, Cmp: resCmp, Fallback: bkFallback(line),
				Branch: fmt.Sprintf("kinds=%s/sym/%s", kinds, resClass(out)),
				Direct: func() string {
					if resClass(out) != "ok" || !bytes.Equal(resReleased(out), g.pt) || !strings.HasSuffix(out, "sender="+want) {
						return fmt.Sprintf("signcryption round trip (symmetric recipient, basic.Keyring + resolver) fails: %s -> %s", trunc(line, 400), trunc(out, 200))
					}
					return ""
				}})
		}
		// no recipient key
		{
			ring := []bkEntry{bkHonest(r.Bytes(32))}
			if r.Intn(3) == 0 {
				ring = nil
			}
			line := fmt.Sprintf("bk.sc.open %s %s %s", bkSpec(ring), prng.Pick(r, "none", "map:-"), keys.Hex(g.msg))
			out := goExec(line)
			emit(Case{Stream: "basic.sc.open.nokey", Line: line, GoOut: out, Cmp: resCmp, Fallback: bkFallback(line), Branch: resClass(out),
				Direct: func() string {
					if resClass(out) != "no-decryption-key" || len(resReleased(out)) != 0 {
						return fmt.Sprintf("a basic.Keyring without any recipient key got %q instead of no-decryption-key", trunc(out, 200))
					}
					return ""
				}})
		}
	}
}

func bkSigSpec(r *prng.R) string {
	var es []bkEntry
	for i := r.Intn(3); i > 0; i-- {
		seed := r.Bytes(32)
		es = append(es, bkEntry{sigPub(seed), append(append([]byte(nil), seed...), sigPub(seed)...)})
	}
	return bkSpec(es)
}

func genBasicVerify(ctx *Ctx, emit func(Case)) {
	r := ctx.R.Fork()
	for fi := 0; fi < ctx.N(6, 40); fi++ {
		bs := prng.Pick(r, 6, 50)
		f := buildSigFamily(r, 1+fi%2, 0, bs, []int{prng.Pick(r, 0, 1, 10, 60), prng.Pick(r, 2, 13)}, "")
		// the signer is never imported: LookupSigningPublicKey does not consult the keyring
		spec := bkSigSpec(r)
		f.openLine = func(msg []byte) string { return fmt.Sprintf("bk.sig.verify known %s %s", spec, keys.Hex(msg)) }
		bkMutationCases("basic.sig.verify", f, bkSomeMutations(ctx, r, f, 12, 100), emit)
		for _, g := range f.msgs {
			g := g
			line := f.openLine(g.msg)
			out := goExec(line)
			emit(Case{Stream: "basic.sig.verify.genuine", Line: line, GoOut: out, Cmp: resCmp, Fallback: bkFallback(line),
				Branch: fmt.Sprintf("v%d/%s", f.major, resClass(out)),
				Direct: func() string {
					if resClass(out) != "ok" || !bytes.Equal(resReleased(out), g.pt) || !strings.HasSuffix(out, "signer="+f.sender) {
						return fmt.Sprintf("attached-signature round trip with basic.Keyring fails: %s -> %s", trunc(line, 300), trunc(out, 200))
					}
					return ""
				}})
		}
	}
}

func genBasicVerifyDetached(ctx *Ctx, emit func(Case)) {
	r := ctx.R.Fork()
	for c := 0; c < ctx.N(10, 80); c++ {
		seed := r.Bytes(32)
		msg := r.Bytes(prng.Pick(r, 0, 1, 20, 100))
		major := 1 + c%2
		sline := fmt.Sprintf("bk.sig.detached %d 0 %s %s %s", major, keys.Hex(seed), keys.Hex(r.Bytes(16)), hexOrDash(msg))
		sout := goExec(sline)
		emit(Case{Stream: "basic.sig.detached", Line: sline, GoOut: sout, Branch: fmt.Sprintf("v%d", major)})
		sig, ok := okBytes(sout)
		if !ok {
			continue
		}
		spec := bkSigSpec(r)
		variants := []struct {
			label    string
			sig, msg []byte
			want     string
		}{
			{"genuine", sig, msg, "ok"},
			{"other-message", sig, append([]byte{7}, msg...), "bad-signature"},
			{"sig-bit-flipped", flipBit(sig, r), msg, ""},
			{"sig-truncated", sig[:len(sig)-1-r.Intn(10)], msg, ""},
		}
		for _, v := range variants {
			v := v
			line := fmt.Sprintf("bk.sig.verifydetached known %s %s %s", spec, keys.Hex(v.sig), hexOrDash(v.msg))
			out := goExec(line)
			emit(Case{Stream: "basic.sig.verifydetached", Line: line, GoOut: out, Cmp: resCmp, Fallback: bkFallback(line),
				Branch: fmt.Sprintf("v%d/%s/%s", major, v.label, resClass(out)),
				Direct: func() string {
					if v.want != "" && resClass(out) != v.want {
						return fmt.Sprintf("detached signature (%s) with basic.Keyring: outcome %s, expected %s: %s", v.label, resClass(out), v.want, trunc(line, 300))
					}
					if v.label == "genuine" && !strings.HasSuffix(out, "signer="+keys.Hex(sigPub(seed))) {
						return "detached round trip with basic.Keyring reports another signer: " + trunc(out, 200)
					}
					if v.label != "genuine" && resClass(out) == "ok" && !bytes.Equal(v.sig, sig) {
						return "a modified detached signature verified: " + trunc(line, 300)
					}
					return ""
				}})
		}
	}
}

// senders whose key objects are all basic's: byte-exact against the model under a scripted
// crypto/rand.Reader (the ephemeral key is read by basic.EphemeralKeyCreator), then the round-trip
// predicate on the implementation: opening with a basic keyring that holds recipient i returns the plaintext
func genBasicSeal(ctx *Ctx, emit func(Case)) {
	r := ctx.R.Fork()
	for c := 0; c < ctx.N(10, 120); c++ {
		v := saltpack.Version{Major: 1 + c%2}
		n := prng.Pick(r, 1, 1, 2, 3, 4)
		var secs [][]byte
		var pubs []string
		for i := 0; i < n; i++ {
			secs = append(secs, r.Bytes(32))
			pubs = append(pubs, keys.Hex(boxPub(secs[i])))
		}
		sender := r.Bytes(32)
		snd := keys.Hex(sender)
		anon := r.Intn(3) == 0
		if anon {
			snd = "anon"
		}
		fault, mode := -1, 0
		if c%5 == 4 {
			fault, mode = r.Intn(n+1), r.Intn(3)
		}
		src := randScript(r, n, true, fault, mode)
		pt := r.Bytes(smallLen(r) % 300)
		line := fmt.Sprintf("bk.enc.seal %d 0 %s %s %s %s", v.Major, snd, strings.Join(pubs, ","), src.Spec(), hexOrDash(pt))
		out := goExec(line)
		emit(Case{Stream: "basic.enc.seal", Line: line, GoOut: out, Branch: fmt.Sprintf("v%d/recips=%d/anon=%v/fault=%v/%s", v.Major, n, anon, fault >= 0, strings.Fields(out)[0]),
			Direct: func() string {
				msg, ok := okBytes(out)
				if !ok {
					if fault < 0 {
						return "Seal with basic keys failed: " + trunc(line, 300) + " -> " + out
					}
					return ""
				}
				for i := range secs {
					k := basic.NewKeyring()
					var foreign [32]byte
					copy(foreign[:], r.Bytes(32))
					for _, s := range [][]byte{foreign[:], secs[i]} {
						var p, q [32]byte
						copy(p[:], boxPub(s))
						copy(q[:], s)
						k.ImportBoxKey(&p, &q)
					}
					mki, got, err := saltpack.Open(saltpack.CheckKnownMajorVersion, msg, k)
					if err != nil || !bytes.Equal(got, pt) {
						return fmt.Sprintf("round trip (Seal with basic keys, Open with a basic.Keyring holding recipient %d) fails: err=%v request=%s", i, err, trunc(line, 300))
					}
					if mki.SenderIsAnon != anon || (!anon && !bytes.Equal(mki.SenderKey.ToKID(), boxPub(sender))) {
						return fmt.Sprintf("round trip with basic.Keyring reports a wrong sender: request=%s", trunc(line, 300))
					}
				}
				return ""
			}})
	}
	// a freshly GENERATED key (real crypto/rand): seal to it, open with the keyring that generated it
	for c := 0; c < ctx.N(4, 30); c++ {
		k := basic.NewKeyring()
		var gen []*basic.SecretKey
		// real crypto/rand: keep predicates of other workers that script crypto/rand.Reader out meanwhile
		script.RandMu.Lock()
		for i := 0; i < 1+c%3; i++ {
			sk, err := k.GenerateBoxKey()
			if err != nil {
				script.RandMu.Unlock()
				panic(err)
			}
			gen = append(gen, sk)
		}
		es := make([]bkEntry, len(gen))
		for i, sk := range gen {
			es[i] = bkEntry{sk.GetRawPublicKey()[:], sk.GetRawSecretKey()[:]}
		}
		target := gen[r.Intn(len(gen))]
		pt := r.Bytes(40)
		v := saltpack.Version{Major: 1 + c%2}
		msg, err := saltpack.Seal(v, pt, nil, []saltpack.BoxPublicKey{target.GetPublicKey()})
		script.RandMu.Unlock()
		if err != nil {
			panic(err)
		}
		_, got, err2 := saltpack.Open(saltpack.CheckKnownMajorVersion, msg, k)
		// the same keyring rebuilt from a spec, for the model
		line := fmt.Sprintf("bk.enc.open known %s %s", bkSpec(es), keys.Hex(msg))
		out := goExec(line)
		emit(Case{Stream: "basic.enc.open.generated", Line: line, GoOut: out, Cmp: resCmp, Fallback: bkFallback(line), Branch: fmt.Sprintf("v%d/keys=%d/%s", v.Major, len(gen), resClass(out)),
			Direct: func() string {
				if err2 != nil || !bytes.Equal(got, pt) {
					return fmt.Sprintf("round trip with a key made by basic.Keyring.GenerateBoxKey fails: err=%v", err2)
				}
				if resClass(out) != "ok" || !bytes.Equal(resReleased(out), pt) {
					return "the keyring rebuilt by ImportBoxKey does not open the message: " + trunc(out, 200)
				}
				return ""
			}})
	}
}

func genBasicScSeal(ctx *Ctx, emit func(Case)) {
	r := ctx.R.Fork()
	for c := 0; c < ctx.N(8, 80); c++ {
		n := prng.Pick(r, 1, 2, 3)
		var secs [][]byte
		var pubs []string
		for i := 0; i < n; i++ {
			secs = append(secs, r.Bytes(32))
			pubs = append(pubs, keys.Hex(boxPub(secs[i])))
		}
		seed := r.Bytes(32)
		snd := keys.Hex(seed)
		anon := r.Intn(3) == 0
		if anon {
			snd = "anon"
		}
		fault, mode := -1, 0
		if c%4 == 3 {
			fault, mode = r.Intn(n+1), r.Intn(3)
		}
		src := randScript(r, n, true, fault, mode)
		pt := r.Bytes(smallLen(r) % 200)
		line := fmt.Sprintf("bk.sc.seal %s %s %s %s", snd, strings.Join(pubs, ","), src.Spec(), hexOrDash(pt))
		out := goExec(line)
		emit(Case{Stream: "basic.sc.seal", Line: line, GoOut: out, Branch: fmt.Sprintf("recips=%d/anon=%v/fault=%v/%s", n, anon, fault >= 0, strings.Fields(out)[0]),
			Direct: func() string {
				msg, ok := okBytes(out)
				if !ok {
					if fault < 0 {
						return "SigncryptSeal with basic keys failed: " + trunc(line, 300) + " -> " + out
					}
					return ""
				}
				for i := range secs {
					k := bkRing(bkSpec([]bkEntry{bkHonest(r.Bytes(32)), bkHonest(secs[i])}), "-")
					spk, got, err := saltpack.SigncryptOpen(msg, k, nil)
					if err != nil || !bytes.Equal(got, pt) {
						return fmt.Sprintf("round trip (SigncryptSeal with basic keys, SigncryptOpen with a basic.Keyring holding recipient %d) fails: err=%v request=%s", i, err, trunc(line, 300))
					}
					if (spk == nil) != anon || (!anon && !bytes.Equal(spk.ToKID(), sigPub(seed))) {
						return "signcryption round trip with basic.Keyring reports a wrong sender: " + trunc(line, 300)
					}
				}
				return ""
			}})
	}
}

func genBasicSign(ctx *Ctx, emit func(Case)) {
	r := ctx.R.Fork()
	for c := 0; c < ctx.N(8, 80); c++ {
		seed := r.Bytes(32)
		msg := r.Bytes(smallLen(r) % 300)
		major := 1 + c%2
		src := &script.Source{Reads: []script.Read{{Data: r.Bytes(16)}}}
		switch c % 6 {
		case 3:
			d := r.Bytes(16)
			src = &script.Source{Reads: []script.Read{{Data: d[:5]}, {Data: d[5:]}}}
		case 5:
			src = &script.Source{Reads: []script.Read{{Data: r.Bytes(7), Err: true}}}
		}
		line := fmt.Sprintf("bk.sig.attached %d 0 %s %s %s", major, keys.Hex(seed), src.Spec(), hexOrDash(msg))
		out := goExec(line)
		emit(Case{Stream: "basic.sig.attached", Line: line, GoOut: out, Branch: fmt.Sprintf("v%d/%s", major, strings.Fields(out)[0]),
			Direct: func() string {
				signed, ok := okBytes(out)
				if !ok {
					return ""
				}
				skey, got, err := saltpack.Verify(saltpack.CheckKnownMajorVersion, signed, basic.NewKeyring())
				if err != nil || !bytes.Equal(got, msg) || !bytes.Equal(skey.ToKID(), sigPub(seed)) {
					return fmt.Sprintf("round trip (Sign with a basic signing key, Verify with a basic.Keyring) fails: err=%v request=%s", err, trunc(line, 300))
				}
				return ""
			}})
	}
}

func init() {
	regExtra("C01", func(ctx *Ctx, emit func(Case)) {
		genBasicLookups(ctx, emit)
		genBasicKeyObjects(ctx, emit)
		genBasicCreator(ctx, emit)
		genBasicEncOpen(ctx, emit)
		genBasicSeal(ctx, emit)
	})
	regExtra("C03", func(ctx *Ctx, emit func(Case)) {
		genBasicLookups(ctx, emit)
		genBasicCreator(ctx, emit)
		genBasicScOpen(ctx, emit)
		genBasicScSeal(ctx, emit)
	})
	regExtra("C05", func(ctx *Ctx, emit func(Case)) {
		genBasicLookups(ctx, emit)
		genBasicKeyObjects(ctx, emit)
		genBasicVerify(ctx, emit)
		genBasicVerifyDetached(ctx, emit)
		genBasicSign(ctx, emit)
	})
	regExtra("C07", func(ctx *Ctx, emit func(Case)) {
		genBasicVerifyDetached(ctx, emit)
	})
	regExtra("C18", func(ctx *Ctx, emit func(Case)) {
		genBasicCreator(ctx, emit)
	})
}
