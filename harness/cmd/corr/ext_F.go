package main

// Extension slot F: the model's OWN typed decoding of message bytes
// (lean/Saltpack/Model/Codec.lean = go-codec's decoding into the saltpack
// packet types) against the package's own decoder.
//
//   codec.list <enc|signcrypt|sig|det> <hex>
//
// The implementation side is the hook VerifListPackets through listingTokens
// (packets.go): the comparison is string equality of the listing.  The model
// may answer `unmodelled <why>`; those are counted (`<stream>/unmodelled`),
// the aim being > 99 % modelled.

import (
	"encoding/binary"
	"fmt"
	"io"
	"math"
	"strings"

	"github.com/keybase/saltpack"
	"verifharness/internal/keys"
	"verifharness/internal/prng"
)

func codecListGo(mode string, msg []byte) string {
	if mode == "det" {
		hdr, hf, _, _ := listingTokens("sig", msg)
		l := saltpack.VerifListPackets("det", msg)
		sg := "E"
		if l.HeaderState == "ok" {
			if l.DetachedSigErr == nil {
				sg = "S:" + keys.Hex(l.DetachedSig)
			} else if l.DetachedSigErr != io.EOF {
				sg = "R"
			}
		}
		return fmt.Sprintf("ok %s %s %s", hdr, hf, sg)
	}
	hdr, hf, items, tail := listingTokens(mode, msg)
	return fmt.Sprintf("ok %s %s %s %s", hdr, hf, items, tail)
}

func goExecExtF(t []string) (string, bool) {
	switch t[0] {
	case "codec.list":
		if len(t) != 3 {
			return "bad-request", true
		}
		return codecListGo(t[1], unhex(t[2])), true
	}
	return "", false
}

// ---------------------------------------------------------------------------
// generators

func listMode(f *family) string {
	switch f.mode {
	case "sc":
		return "signcrypt"
	}
	return f.mode
}

// codecClass: a short signature of a listing (header state, items, tail)
func codecClass(out string) string {
	t := strings.Fields(out)
	if len(t) < 4 {
		return "short"
	}
	h := t[1][:1]
	if len(t) == 4 { // det
		return h + "/" + t[3][:1]
	}
	items := "0"
	if t[3] != "-" {
		its := strings.Split(t[3], ",")
		items = fmt.Sprintf("%d", len(its))
		if len(its) > 3 {
			items = "many"
		}
		if its[len(its)-1] == "N" {
			items += "N"
		}
	}
	return h + "/" + items + "/" + t[4]
}

func codecCase(stream, mode, label string, msg []byte) Case {
	line := "codec.list " + mode + " " + keys.Hex(msg)
	out := codecListGo(mode, msg)
	return Case{Stream: stream, Line: line, GoOut: out, Branch: mode + "/" + label + "/" + codecClass(out),
		Sample: map[string]interface{}{"mode": mode, "what": label, "input_len": len(msg), "listing": codecClass(out)}}
}

func mvRawOf(b ...byte) *MV { return &MV{K: mvRaw, Raw: b} }
func mvNilOf() *MV        { return &MV{K: mvNil} }
func mvUintOf(u uint64) *MV {
	return &MV{K: mvUint, U: u}
}
func mvMapOf(kv ...*MV) *MV {
	m := &MV{K: mvMap}
	for i := 0; i+1 < len(kv); i += 2 {
		m.Map = append(m.Map, [2]*MV{kv[i], kv[i+1]})
	}
	return m
}
func mvWide(v *MV) *MV { c := v.clone(); c.Wide = true; return c }

func intsOf(b []byte) *MV {
	a := &MV{K: mvArr}
	for _, x := range b {
		a.Arr = append(a.Arr, mvUintOf(uint64(x)))
	}
	return a
}

func nestArr(depth int, leaf *MV) *MV {
	v := leaf
	for i := 0; i < depth; i++ {
		v = mvArrOf(v)
	}
	return v
}

func nestMap(depth int, leaf *MV) *MV {
	v := leaf
	for i := 0; i < depth; i++ {
		v = mvMapOf(mvIntOf(1), v)
	}
	return v
}

// palette: one value of every MessagePack family (and the awkward members of each)
func codecPalette(r *prng.R) []struct {
	label string
	v     *MV
} {
	f32 := make([]byte, 5)
	f32[0] = 0xca
	binary.BigEndian.PutUint32(f32[1:], math.Float32bits(1.5))
	f64 := make([]byte, 9)
	f64[0] = 0xcb
	binary.BigEndian.PutUint64(f64[1:], math.Float64bits(-2.25))
	b32 := r.Bytes(32)
	ints40 := intsOf(r.Bytes(40))
	ints40.Arr[7] = mvNilOf()
	return []struct {
		label string
		v     *MV
	}{
		{"nil", mvNilOf()}, {"true", mvBoolOf(true)}, {"false", mvBoolOf(false)},
		{"int0", mvIntOf(0)}, {"int1", mvIntOf(1)}, {"int2", mvIntOf(2)}, {"int3", mvIntOf(3)}, {"int127", mvIntOf(127)}, {"int128", mvIntOf(128)},
		{"int255", mvIntOf(255)}, {"int256", mvIntOf(256)}, {"int65536", mvIntOf(65536)}, {"int2p31", mvIntOf(1 << 31)},
		{"int2p32", mvIntOf(1 << 32)}, {"uint2p63", mvUintOf(1 << 63)}, {"uintmax", mvUintOf(math.MaxUint64)},
		{"neg1", mvIntOf(-1)}, {"neg32", mvIntOf(-32)}, {"neg33", mvIntOf(-33)}, {"neg129", mvIntOf(-129)}, {"neg40000", mvIntOf(-40000)},
		{"negbig", mvIntOf(-1 << 40)}, {"int64min", mvIntOf(math.MinInt64)},
		{"wide1", &MV{K: mvInt, I: 1, Wide: true}}, {"wide2", &MV{K: mvUint, U: 2, Wide: true}}, {"wideneg", &MV{K: mvInt, I: -1, Wide: true}},
		{"i8pos", mvRawOf(0xd0, 0x01)}, {"i16pos", mvRawOf(0xd1, 0x00, 0x02)}, {"i32pos", mvRawOf(0xd2, 0, 0, 0, 1)}, {"i64pos", mvRawOf(0xd3, 0, 0, 0, 0, 0, 0, 0, 2)},
		{"u64one", mvRawOf(0xcf, 0, 0, 0, 0, 0, 0, 0, 1)}, {"u32two", mvRawOf(0xce, 0, 0, 0, 2)},
		{"f32", mvRawOf(f32...)}, {"f64", mvRawOf(f64...)},
		{"str0", mvStrOf("")}, {"strsp", mvStrOf("saltpack")}, {"str40", mvStrOf(strings.Repeat("x", 40))}, {"str300", mvStrOf(strings.Repeat("y", 300))},
		{"strwide", &MV{K: mvStr, Data: []byte("saltpack"), Wide: true}},
		{"bin0", mvBinOf(nil)}, {"bin1", mvBinOf([]byte{7})}, {"bin16", mvBinOf(r.Bytes(16))}, {"bin31", mvBinOf(b32[:31])}, {"bin32", mvBinOf(b32)}, {"bin33", mvBinOf(r.Bytes(33))},
		{"bin300", mvBinOf(r.Bytes(300))}, {"binwide", &MV{K: mvBin, Data: b32, Wide: true}},
		{"arr0", mvArrOf()}, {"arr123", mvArrOf(mvIntOf(1), mvIntOf(2), mvIntOf(3))}, {"arr12", mvArrOf(mvIntOf(1), mvIntOf(2))},
		{"ints32", intsOf(b32)}, {"ints40nil", ints40}, {"ints300", mvArrOf(mvIntOf(300))}, {"intsneg", mvArrOf(mvIntOf(-1))}, {"intsmix", mvArrOf(mvIntOf(1), mvStrOf("a"))},
		{"arrnil", mvArrOf(mvNilOf(), mvNilOf())}, {"arrbins", mvArrOf(mvBinOf(b32), mvBinOf(b32[:5]), mvStrOf("q"), mvNilOf(), intsOf(r.Bytes(35)))},
		{"arrarr", mvArrOf(mvArrOf(mvIntOf(2), mvIntOf(0)), mvArrOf())}, {"arrwide", &MV{K: mvArr, Arr: []*MV{mvIntOf(1), mvIntOf(0)}, Wide: true}},
		{"map0", mvMapOf()}, {"map12", mvMapOf(mvIntOf(1), mvIntOf(2))}, {"mapints", mvMapOf(mvIntOf(1), mvIntOf(2), mvIntOf(3), mvIntOf(4))},
		{"mapstr", mvMapOf(mvStrOf("a"), mvIntOf(1))}, {"mapbin", mvMapOf(mvBinOf([]byte{1}), mvBinOf([]byte{2}))}, {"mapnilkey", mvMapOf(mvNilOf(), mvIntOf(1))},
		{"mapnilval", mvMapOf(mvIntOf(1), mvNilOf())}, {"maparrkey", mvMapOf(mvArrOf(mvIntOf(1)), mvIntOf(2))}, {"mapmapkey", mvMapOf(mvMapOf(), mvIntOf(2))},
		{"mapextkey", mvMapOf(mvRawOf(0xd4, 5, 9), mvIntOf(2))}, {"mapdup", mvMapOf(mvIntOf(1), mvIntOf(2), mvIntOf(1), mvStrOf("x"))},
		{"mapdupstr", mvMapOf(mvStrOf("k"), mvNilOf(), mvBinOf([]byte("k")), mvStrOf("x"))}, {"mapfloatkeys", mvMapOf(mvRawOf(f64...), mvIntOf(1), mvRawOf(f32...), mvIntOf(2))},
		{"mapi_u", mvMapOf(mvIntOf(1), mvIntOf(2), mvRawOf(0xcc, 1), mvIntOf(3))}, {"mapwide", &MV{K: mvMap, Map: [][2]*MV{{mvIntOf(1), mvIntOf(2)}}, Wide: true}},
		{"mapemptykey", mvMapOf(mvStrOf(""), mvIntOf(1))}, {"mapboolkey", mvMapOf(mvBoolOf(true), mvIntOf(1), mvBoolOf(false), mvNilOf())},
		{"fixext1", mvRawOf(0xd4, 5, 9)}, {"fixext2", mvRawOf(0xd5, 5, 9, 9)}, {"fixext4", mvRawOf(0xd6, 1, 1, 2, 3, 4)}, {"fixext8", mvRawOf(0xd7, 1, 1, 2, 3, 4, 5, 6, 7, 8)},
		{"fixext16", mvRawOf(append([]byte{0xd8, 3}, make([]byte, 16)...)...)}, {"ext8", mvRawOf(0xc7, 3, 5, 1, 2, 3)}, {"ext8len0", mvRawOf(0xc7, 0, 5)},
		{"ext16len0", mvRawOf(0xc8, 0, 0, 5)}, {"ext32len0", mvRawOf(0xc9, 0, 0, 0, 0, 9)}, {"ext16", mvRawOf(0xc8, 0, 2, 5, 1, 2)}, {"ext32", mvRawOf(0xc9, 0, 0, 0, 1, 5, 1)},
		{"time4", mvRawOf(0xd6, 0xff, 1, 2, 3, 4)}, {"time8", mvRawOf(0xd7, 0xff, 1, 2, 3, 4, 5, 6, 7, 8)}, {"time12", mvRawOf(append([]byte{0xc7, 12, 0xff}, make([]byte, 12)...)...)},
		{"timebad1", mvRawOf(0xd4, 0xff, 1)}, {"timebad0", mvRawOf(0xc7, 0, 0xff)}, {"timebad16", mvRawOf(append([]byte{0xd8, 0xff}, make([]byte, 16)...)...)},
		{"dupint", mvMapOf(mvIntOf(1), mvIntOf(2), mvIntOf(1), mvIntOf(3), mvIntOf(1), mvRawOf(0xcf, 0xff, 0, 0, 0, 0, 0, 0, 0))}, {"dupintneg", mvMapOf(mvIntOf(1), mvIntOf(2), mvIntOf(1), mvIntOf(-1))},
		{"dupuint", mvMapOf(mvRawOf(0xcc, 1), mvRawOf(0xcc, 5), mvRawOf(0xcd, 0, 1), mvIntOf(7))}, {"dupuintneg", mvMapOf(mvRawOf(0xcc, 1), mvRawOf(0xcc, 5), mvRawOf(0xcc, 1), mvIntOf(-1))},
		{"dupbool", mvMapOf(mvIntOf(1), mvBoolOf(true), mvIntOf(1), mvIntOf(1), mvIntOf(1), mvIntOf(0))}, {"dupboolbad", mvMapOf(mvIntOf(1), mvBoolOf(true), mvIntOf(1), mvIntOf(2))},
		{"dupfloat", mvMapOf(mvIntOf(1), mvRawOf(f64...), mvIntOf(1), mvIntOf(3), mvIntOf(1), mvRawOf(f32...))}, {"dupfloatbad", mvMapOf(mvIntOf(1), mvRawOf(f64...), mvIntOf(1), mvStrOf("s"))},
		{"dupfkeys", mvMapOf(mvRawOf(0xca, 0x3f, 0xc0, 0, 0), mvIntOf(1), mvRawOf(0xcb, 0x3f, 0xf8, 0, 0, 0, 0, 0, 0), mvStrOf("x"))},
		{"dupzero", mvMapOf(mvRawOf(0xca, 0, 0, 0, 0), mvIntOf(1), mvRawOf(0xcb, 0x80, 0, 0, 0, 0, 0, 0, 0), mvStrOf("x"))},
		{"dupnan", mvMapOf(mvRawOf(0xca, 0x7f, 0xc0, 0, 0), mvIntOf(1), mvRawOf(0xca, 0x7f, 0xc0, 0, 0), mvStrOf("x"))},
		{"dupsubnormal", mvMapOf(mvRawOf(0xca, 0, 0, 0, 3), mvIntOf(1), mvRawOf(0xcb, 0x36, 0xa8, 0, 0, 0, 0, 0, 0), mvStrOf("x"))},
		{"dupinf", mvMapOf(mvRawOf(0xca, 0xff, 0x80, 0, 0), mvIntOf(1), mvRawOf(0xcb, 0xff, 0xf0, 0, 0, 0, 0, 0, 0), mvStrOf("x"))},
		{"dupnilthen", mvMapOf(mvIntOf(1), mvNilOf(), mvIntOf(1), mvStrOf("x"), mvIntOf(1), mvIntOf(4))}, {"dupbytes", mvMapOf(mvIntOf(1), mvStrOf("x"), mvIntOf(1), mvIntOf(4))},
		{"dupstrint", mvMapOf(mvStrOf("k"), mvIntOf(1), mvBinOf([]byte("k")), mvStrOf("x"))}, {"duptime", mvMapOf(mvRawOf(0xd6, 0xff, 1, 2, 3, 4), mvIntOf(1), mvRawOf(0xd6, 0xff, 1, 2, 3, 5), mvIntOf(1))},
		{"dupdeep", nestMap(47, mvMapOf(mvIntOf(1), mvIntOf(2), mvIntOf(1), mvIntOf(3)))}, {"dupdeeper", nestMap(48, mvMapOf(mvIntOf(1), mvIntOf(2), mvIntOf(1), mvIntOf(3)))},
		{"c1", mvRawOf(0xc1)}, {"deep40", nestArr(40, mvIntOf(1))}, {"deepmap20", nestMap(20, mvIntOf(1))},
	}
}

// a walkable position inside an MV tree
type mvPath []int

func mvPaths(v *MV, prefix mvPath, out *[]mvPath) {
	*out = append(*out, append(mvPath(nil), prefix...))
	if v.K == mvArr {
		for i, e := range v.Arr {
			mvPaths(e, append(prefix, i), out)
		}
	}
}

func mvReplace(v *MV, p mvPath, w *MV) *MV {
	if len(p) == 0 {
		return w
	}
	c := v.clone()
	c.Arr[p[0]] = mvReplace(c.Arr[p[0]], p[1:], w)
	return c
}

func mvAt(v *MV, p mvPath) *MV {
	for _, i := range p {
		v = v.Arr[i]
	}
	return v
}

func pathLabel(p mvPath) string {
	if len(p) == 0 {
		return "root"
	}
	s := make([]string, len(p))
	for i, x := range p {
		s[i] = fmt.Sprint(x)
	}
	return strings.Join(s, ".")
}

// the codec names of the struct at a header path / of a packet
var encHeaderNames = []string{"format_name", "vers", "type", "ephemeral", "sendersecretbox", "rcvrs"}
var sigHeaderNames = []string{"format_name", "vers", "type", "sender_public", "nonce"}

func asNamedMap(a *MV, names []string) *MV {
	m := &MV{K: mvMap}
	for i, e := range a.Arr {
		k := fmt.Sprintf("unknown%d", i)
		if i < len(names) {
			k = names[i]
		}
		m.Map = append(m.Map, [2]*MV{mvStrOf(k), e})
	}
	return m
}

func asFlatMap(a *MV) *MV {
	el := append([]*MV(nil), a.Arr...)
	if len(el)%2 == 1 {
		el = append(el, mvNilOf())
	}
	return mvMapOf(el...)
}

// a message taken apart: header tree and packet trees
type codecParts struct {
	mode    string // listing mode
	major   int
	inner   *MV
	packets []*MV
	tail    []byte // detached: the signature object
}

func (p *codecParts) build(inner *MV, hdrObj *MV, packets []*MV) []byte {
	var out []byte
	if hdrObj != nil {
		out = mpEncode(hdrObj)
	} else {
		out = mpEncode(mvBinOf(mpEncode(inner)))
	}
	for _, q := range packets {
		out = append(out, mpEncode(q)...)
	}
	return out
}

func takeApart(mode string, major int, msg []byte) *codecParts {
	_, inner, pk, _ := splitMsg(msg)
	if inner == nil || inner.K != mvArr {
		return nil
	}
	p := &codecParts{mode: mode, major: major, inner: inner}
	for _, b := range pk {
		v, _, err := mpParse(b)
		if err != nil {
			return nil
		}
		p.packets = append(p.packets, v)
	}
	return p
}

func (p *codecParts) headerNames() []string {
	if p.mode == "sig" || p.mode == "det" {
		return sigHeaderNames
	}
	return encHeaderNames
}

func (p *codecParts) packetNames() []string {
	switch {
	case p.mode == "signcrypt":
		return []string{"ctext", "final"}
	case p.mode == "enc" && p.major == 1:
		return []string{"authenticators", "ctext"}
	case p.mode == "sig" && p.major == 1:
		return []string{"signature", "payload_chunk"}
	}
	return nil // V2 blocks are not structs (CodecDecodeSelf)
}

// confusions of one message: every field replaced by every palette value,
// containers in their other form, surplus / missing elements, names
func (p *codecParts) confusions(r *prng.R, pal []struct {
	label string
	v     *MV
}, budget int, emit func(label string, msg []byte)) {
	type job struct {
		label string
		msg   func() []byte
	}
	var jobs []job
	add := func(label string, f func() []byte) { jobs = append(jobs, job{label, f}) }
	// --- header tree --------------------------------------------------------
	var hp []mvPath
	mvPaths(p.inner, nil, &hp)
	for _, path := range hp {
		path := path
		for _, pv := range pal {
			pv := pv
			add("h@"+pathLabel(path)+"="+pv.label, func() []byte { return p.build(mvReplace(p.inner, path, pv.v), nil, p.packets) })
		}
		at := mvAt(p.inner, path)
		if at.K == mvArr {
			add("h@"+pathLabel(path)+".flatmap", func() []byte { return p.build(mvReplace(p.inner, path, asFlatMap(at)), nil, p.packets) })
			add("h@"+pathLabel(path)+".wide", func() []byte { return p.build(mvReplace(p.inner, path, mvWide(at)), nil, p.packets) })
			for _, k := range []int{1, 2, 3} {
				k := k
				add(fmt.Sprintf("h@%s.surplus%d", pathLabel(path), k), func() []byte {
					c := at.clone()
					for i := 0; i < k; i++ {
						c.Arr = append(c.Arr, pal[r.Intn(len(pal))].v)
					}
					return p.build(mvReplace(p.inner, path, c), nil, p.packets)
				})
				if len(at.Arr) >= k {
					add(fmt.Sprintf("h@%s.missing%d", pathLabel(path), k), func() []byte {
						c := at.clone()
						c.Arr = c.Arr[:len(c.Arr)-k]
						return p.build(mvReplace(p.inner, path, c), nil, p.packets)
					})
				}
			}
			var names []string
			switch {
			case len(path) == 0:
				names = p.headerNames()
			case len(path) == 1 && path[0] == 1:
				names = []string{"major", "minor"}
			case len(path) == 2 && path[0] == 5:
				names = []string{"receiver_key_id", "payloadkey"}
			}
			if names != nil {
				add("h@"+pathLabel(path)+".named", func() []byte { return p.build(mvReplace(p.inner, path, asNamedMap(at, names)), nil, p.packets) })
				add("h@"+pathLabel(path)+".named.shuffled", func() []byte {
					m := asNamedMap(at, names)
					for i := len(m.Map) - 1; i > 0; i-- {
						j := r.Intn(i + 1)
						m.Map[i], m.Map[j] = m.Map[j], m.Map[i]
					}
					m.Map = append(m.Map, [2]*MV{mvStrOf("zzz"), pal[r.Intn(len(pal))].v})
					return p.build(mvReplace(p.inner, path, m), nil, p.packets)
				})
				add("h@"+pathLabel(path)+".named.dup", func() []byte {
					m := asNamedMap(at, names)
					m.Map = append(m.Map, m.Map[r.Intn(len(m.Map))])
					return p.build(mvReplace(p.inner, path, m), nil, p.packets)
				})
				add("h@"+pathLabel(path)+".named.binkeys", func() []byte {
					m := asNamedMap(at, names)
					for i := range m.Map {
						switch i % 3 {
						case 0:
							m.Map[i][0] = mvBinOf(m.Map[i][0].Data)
						case 1:
							m.Map[i][0] = intsOf(m.Map[i][0].Data)
						}
					}
					return p.build(mvReplace(p.inner, path, m), nil, p.packets)
				})
				add("h@"+pathLabel(path)+".named.badkey", func() []byte {
					m := asNamedMap(at, names)
					m.Map[r.Intn(len(m.Map))][0] = pal[r.Intn(len(pal))].v
					return p.build(mvReplace(p.inner, path, m), nil, p.packets)
				})
				add("h@"+pathLabel(path)+".named.crosskey", func() []byte {
					// a key that spans two entries of go-codec's name table
					m := asNamedMap(at, names)
					k := append([]byte(names[0]), 0xff, 0, 0)
					m.Map[0][0] = mvBinOf(k)
					return p.build(mvReplace(p.inner, path, m), nil, p.packets)
				})
			}
		}
		if at.K == mvBin || at.K == mvStr {
			add("h@"+pathLabel(path)+".ints", func() []byte { return p.build(mvReplace(p.inner, path, intsOf(at.Data)), nil, p.packets) })
			add("h@"+pathLabel(path)+".intsmap", func() []byte { return p.build(mvReplace(p.inner, path, asFlatMap(intsOf(at.Data))), nil, p.packets) })
			add("h@"+pathLabel(path)+".other", func() []byte {
				c := at.clone()
				if c.K == mvBin {
					c.K = mvStr
				} else {
					c.K = mvBin
				}
				c.Wide = true
				return p.build(mvReplace(p.inner, path, c), nil, p.packets)
			})
		}
	}
	// --- the outer header object (a `*[]byte` at top level) -------------------
	hb := mpEncode(p.inner)
	for _, pv := range pal {
		pv := pv
		add("outer="+pv.label, func() []byte { return p.build(nil, pv.v, p.packets) })
	}
	add("outer.str", func() []byte { return p.build(nil, &MV{K: mvStr, Data: hb}, p.packets) })
	add("outer.wide", func() []byte { return p.build(nil, &MV{K: mvBin, Data: hb, Wide: true}, p.packets) })
	add("outer.ints", func() []byte { return p.build(nil, intsOf(hb), p.packets) })
	add("outer.intsmap", func() []byte { return p.build(nil, asFlatMap(intsOf(hb)), p.packets) })
	add("outer.trailing", func() []byte { return p.build(nil, mvBinOf(append(append([]byte(nil), hb...), r.Bytes(5)...)), p.packets) })
	add("outer.nilheader", func() []byte { return p.build(nil, mvBinOf([]byte{0xc0}), p.packets) })
	add("outer.emptyheader", func() []byte { return p.build(nil, mvBinOf(nil), p.packets) })
	// --- packets ----------------------------------------------------------------
	for pi, pk := range p.packets {
		pi, pk := pi, pk
		if pi > 1 && pi < len(p.packets)-1 {
			continue
		}
		withPacket := func(w *MV) []byte {
			q := append([]*MV(nil), p.packets...)
			q[pi] = w
			return p.build(p.inner, nil, q)
		}
		var pp []mvPath
		mvPaths(pk, nil, &pp)
		for _, path := range pp {
			path := path
			if len(path) == 2 && path[1] > 1 {
				continue // authenticators beyond the second: the same code path
			}
			for _, pv := range pal {
				pv := pv
				add(fmt.Sprintf("p%d@%s=%s", pi, pathLabel(path), pv.label), func() []byte { return withPacket(mvReplace(pk, path, pv.v)) })
			}
			at := mvAt(pk, path)
			if at.K == mvArr {
				add(fmt.Sprintf("p%d@%s.flatmap", pi, pathLabel(path)), func() []byte { return withPacket(mvReplace(pk, path, asFlatMap(at))) })
				add(fmt.Sprintf("p%d@%s.wide", pi, pathLabel(path)), func() []byte { return withPacket(mvReplace(pk, path, mvWide(at))) })
				for _, k := range []int{1, 2, 4} {
					k := k
					add(fmt.Sprintf("p%d@%s.surplus%d", pi, pathLabel(path), k), func() []byte {
						c := at.clone()
						for i := 0; i < k; i++ {
							c.Arr = append(c.Arr, pal[r.Intn(len(pal))].v)
						}
						return withPacket(mvReplace(pk, path, c))
					})
					if len(at.Arr) >= k {
						add(fmt.Sprintf("p%d@%s.missing%d", pi, pathLabel(path), k), func() []byte {
							c := at.clone()
							c.Arr = c.Arr[:len(c.Arr)-k]
							return withPacket(mvReplace(pk, path, c))
						})
					}
				}
				if len(path) == 0 {
					names := p.packetNames()
					if names == nil {
						names = []string{"final", "authenticators", "ctext"} // V2: not a struct; keys are just elements
					}
					add(fmt.Sprintf("p%d.named", pi), func() []byte { return withPacket(asNamedMap(at, names)) })
					add(fmt.Sprintf("p%d.named.rev", pi), func() []byte {
						m := asNamedMap(at, names)
						for i, j := 0, len(m.Map)-1; i < j; i, j = i+1, j-1 {
							m.Map[i], m.Map[j] = m.Map[j], m.Map[i]
						}
						m.Map = append(m.Map, [2]*MV{mvStrOf("other"), pal[r.Intn(len(pal))].v})
						return withPacket(m)
					})
					add(fmt.Sprintf("p%d.named.dup", pi), func() []byte {
						m := asNamedMap(at, names)
						m.Map = append(m.Map, m.Map[r.Intn(len(m.Map))])
						return withPacket(m)
					})
					add(fmt.Sprintf("p%d.named.badkey", pi), func() []byte {
						m := asNamedMap(at, names)
						m.Map[r.Intn(len(m.Map))][0] = pal[r.Intn(len(pal))].v
						return withPacket(m)
					})
				}
			}
			if at.K == mvBin || at.K == mvStr {
				add(fmt.Sprintf("p%d@%s.ints", pi, pathLabel(path)), func() []byte { return withPacket(mvReplace(pk, path, intsOf(at.Data))) })
				add(fmt.Sprintf("p%d@%s.intsmap", pi, pathLabel(path)), func() []byte { return withPacket(mvReplace(pk, path, asFlatMap(intsOf(at.Data)))) })
				add(fmt.Sprintf("p%d@%s.ints40", pi, pathLabel(path)), func() []byte {
					return withPacket(mvReplace(pk, path, intsOf(append(append([]byte(nil), at.Data...), r.Bytes(9)...))))
				})
				add(fmt.Sprintf("p%d@%s.str", pi, pathLabel(path)), func() []byte {
					c := at.clone()
					c.K = mvStr
					c.Wide = r.Bool()
					return withPacket(mvReplace(pk, path, c))
				})
				for _, n := range []int{0, 1, 15, 16, 17, 31, 33, 64} {
					n := n
					add(fmt.Sprintf("p%d@%s.len%d", pi, pathLabel(path), n), func() []byte { return withPacket(mvReplace(pk, path, mvBinOf(r.Bytes(n)))) })
				}
			}
		}
		// an object of another shape in the packet's place, then more packets
		for _, pv := range pal {
			pv := pv
			add(fmt.Sprintf("p%d.insert=%s", pi, pv.label), func() []byte {
				q := append([]*MV(nil), p.packets[:pi]...)
				q = append(q, pv.v)
				q = append(q, p.packets[pi:]...)
				return p.build(p.inner, nil, q)
			})
		}
	}
	// trailing objects
	for _, pv := range pal {
		pv := pv
		add("trail="+pv.label, func() []byte { return p.build(p.inner, nil, append(append([]*MV(nil), p.packets...), pv.v)) })
	}
	// --- emit (all, or a sample), each also truncated somewhere -------------------
	emitJob := func(j job) {
		m := j.msg()
		emit(j.label, m)
	}
	if budget <= 0 || budget >= len(jobs) {
		for _, j := range jobs {
			emitJob(j)
		}
	} else {
		for i := 0; i < budget; i++ {
			emitJob(jobs[r.Intn(len(jobs))])
		}
	}
	nt := budget / 4
	if budget <= 0 {
		nt = len(jobs) / 4
	}
	for i := 0; i < nt; i++ {
		j := jobs[r.Intn(len(jobs))]
		m := j.msg()
		if len(m) > 1 {
			emit(j.label+".trunc", m[:1+r.Intn(len(m)-1)])
		}
	}
}

func genericLabel(l string) string {
	// histogram key: drop indices and values
	if i := strings.IndexAny(l, "@="); i > 0 {
		head := l[:i]
		if len(head) > 1 && (head[0] == 'p') {
			head = "p"
		}
		tail := ""
		if j := strings.LastIndex(l, "."); j > i {
			tail = l[j:]
		}
		if strings.Contains(l, "=") {
			tail = "=v" + tail
		}
		return head + tail
	}
	return l
}

// messages of every mode and version to start from
type codecSeed struct {
	mode  string
	major int
	msg   []byte
}

func codecSeeds(ctx *Ctx, r *prng.R, n int) (seeds []codecSeed, fams []*family) {
	for _, f := range encFamilies(ctx, r, 2*n) {
		fams = append(fams, f)
		seeds = append(seeds, codecSeed{"enc", f.major, f.msgs[len(f.msgs)-1].msg})
	}
	for _, f := range scFamilies(ctx, r, n) {
		fams = append(fams, f)
		seeds = append(seeds, codecSeed{"signcrypt", 2, f.msgs[len(f.msgs)-1].msg})
	}
	for _, f := range sigFamilies(ctx, r, 2*n) {
		fams = append(fams, f)
		seeds = append(seeds, codecSeed{"sig", f.major, f.msgs[len(f.msgs)-1].msg})
	}
	for k := 0; k < 2*n; k++ {
		major := 1 + k%2
		line := fmt.Sprintf("sig.detached %d 0 %s %s %s", major, keys.Hex(r.Bytes(32)), keys.Hex(r.Bytes(16)), keys.Hex(r.Bytes(10)))
		if sig, ok := okBytes(goExec(line)); ok {
			seeds = append(seeds, codecSeed{"det", major, sig})
		}
	}
	return
}

var hostileBytes = []byte{0x00, 0x01, 0x02, 0x7f, 0x80, 0x81, 0x82, 0x83, 0x8f, 0x90, 0x91, 0x92, 0x93, 0x9f, 0xa0, 0xa1, 0xbf, 0xc0, 0xc1, 0xc2, 0xc3, 0xc4, 0xc5, 0xc6,
	0xc7, 0xc8, 0xc9, 0xca, 0xcb, 0xcc, 0xcd, 0xce, 0xcf, 0xd0, 0xd1, 0xd2, 0xd3, 0xd4, 0xd5, 0xd6, 0xd7, 0xd8, 0xd9, 0xda, 0xdb, 0xdc, 0xdd, 0xde, 0xdf, 0xe0, 0xff}

func genCodecList(ctx *Ctx, emit func(Case)) {
	r := ctx.R.Fork()
	seeds, fams := codecSeeds(ctx, r, ctx.N(1, 4))
	// (1) every mutation of every family, in the family's own mode; signatures also as detached; every 5th cross-mode
	modes := []string{"enc", "signcrypt", "sig", "det"}
	for _, f := range fams {
		mode := listMode(f)
		for _, g := range f.msgs {
			emit(codecCase("codec.list.genuine", mode, "genuine", g.msg))
		}
		for i, m := range allMutations(ctx, r, f, false) {
			lbl := m.label
			if j := strings.IndexAny(lbl, "0123456789"); j > 0 && (lbl[0] == 'p' || lbl[0] == 'f') && strings.Contains(lbl, ".") {
				lbl = lbl[:1] + lbl[strings.Index(lbl, "."):]
			}
			emit(codecCase("codec.list.mutations", mode, lbl, m.msg))
			if mode == "sig" && i%3 == 0 {
				emit(codecCase("codec.list.mutations", "det", lbl, m.msg))
			}
			if i%5 == 0 {
				emit(codecCase("codec.list.crossmode", modes[r.Intn(4)], f.mode+"-as-other", m.msg))
			}
		}
	}
	// (2) bytes: truncation at every position, a flipped bit and a hostile descriptor at every position
	for si, s := range seeds {
		if ctx.Quick && si%2 == 1 {
			continue
		}
		n := len(s.msg)
		for k := 0; k < n; k++ {
			emit(codecCase("codec.list.bytes", s.mode, "trunc", s.msg[:k]))
			c := append([]byte(nil), s.msg...)
			c[k] ^= 1 << uint(r.Intn(8))
			emit(codecCase("codec.list.bytes", s.mode, "flip", c))
			reps := ctx.N(1, 6)
			for j := 0; j < reps; j++ {
				c := append([]byte(nil), s.msg...)
				c[k] = hostileBytes[r.Intn(len(hostileBytes))]
				emit(codecCase("codec.list.bytes", s.mode, "descriptor", c))
			}
		}
	}
	// (3) type confusions of every field
	pal := codecPalette(r)
	for _, s := range seeds {
		s := s
		p := takeApart(s.mode, s.major, s.msg)
		if p == nil {
			continue
		}
		p.confusions(r, pal, ctx.N(1200, 0), func(label string, msg []byte) {
			emit(codecCase("codec.list.confusion", s.mode, genericLabel(label), msg))
		})
	}
	// (4) the depth limit (100 nested decode/swallow calls) around its boundary
	for _, s := range seeds {
		p := takeApart(s.mode, s.major, s.msg)
		if p == nil {
			continue
		}
		depths := []int{44, 45, 46, 47, 48, 49, 50, 51, 52, 93, 94, 95, 96, 97, 98, 99, 100, 101, 102, 103}
		if ctx.Quick {
			depths = []int{46, 47, 48, 49, 50, 95, 96, 97, 98, 99, 100, 101}
		}
		for _, d := range depths {
			for _, leaf := range []*MV{mvIntOf(1), mvArrOf(), mvRawOf(0xc7, 0, 5, 0x01), mvMapOf()} {
				deep := nestArr(d, leaf)
				deepm := nestMap(d, leaf)
				// surplus element of the header / of the version / of a packet / of an authenticator; in a packet's place; behind the message
				h := p.inner.clone()
				h.Arr = append(h.Arr, deep)
				emit(codecCase("codec.list.depth", s.mode, "header-surplus", p.build(h, nil, p.packets)))
				h2 := p.inner.clone()
				if h2.Arr[1].K == mvArr {
					h2.Arr[1].Arr = append(h2.Arr[1].Arr, deepm)
					emit(codecCase("codec.list.depth", s.mode, "version-surplus", p.build(h2, nil, p.packets)))
				}
				if len(p.packets) > 0 && p.packets[0].K == mvArr {
					q := append([]*MV(nil), p.packets...)
					c := q[0].clone()
					c.Arr = append(c.Arr, nestArr(d, leaf))
					q[0] = c
					emit(codecCase("codec.list.depth", s.mode, "packet-surplus", p.build(p.inner, nil, q)))
					c2 := p.packets[0].clone()
					for i, e := range c2.Arr {
						if e.K == mvArr && len(e.Arr) > 0 {
							a := intsOf(make([]byte, 32))
							a.Arr = append(a.Arr, deep)
							c2.Arr[i] = mvArrOf(a)
						}
					}
					q2 := append([]*MV(nil), p.packets...)
					q2[0] = c2
					emit(codecCase("codec.list.depth", s.mode, "authenticator-surplus", p.build(p.inner, nil, q2)))
					q3 := append([]*MV{deep}, p.packets...)
					emit(codecCase("codec.list.depth", s.mode, "as-packet", p.build(p.inner, nil, q3)))
					q4 := append([]*MV{deepm}, p.packets...)
					emit(codecCase("codec.list.depth", s.mode, "as-packet-map", p.build(p.inner, nil, q4)))
				}
			}
		}
	}
	// (5) random objects after a valid header, and random bytes
	for i := 0; i < ctx.N(150, 3000); i++ {
		s := seeds[r.Intn(len(seeds))]
		p := takeApart(s.mode, s.major, s.msg)
		if p == nil {
			continue
		}
		var q []*MV
		for k := r.Intn(4); k >= 0; k-- {
			if r.Intn(3) == 0 && len(p.packets) > 0 {
				q = append(q, p.packets[r.Intn(len(p.packets))])
			} else {
				q = append(q, randMV(r, pal, 3))
			}
		}
		msg := p.build(p.inner, nil, q)
		if r.Intn(4) == 0 && len(msg) > 2 {
			msg = msg[:1+r.Intn(len(msg)-1)]
		}
		emit(codecCase("codec.list.random", s.mode, "objects", msg))
	}
	for i := 0; i < ctx.N(100, 3000); i++ {
		n := prng.Pick(r, 1, 2, 3, 5, 8, 13, 40)
		b := make([]byte, n)
		for j := range b {
			if r.Intn(2) == 0 {
				b[j] = hostileBytes[r.Intn(len(hostileBytes))]
			} else {
				b[j] = byte(r.Intn(256))
			}
		}
		mode := modes[r.Intn(4)]
		emit(codecCase("codec.list.random", mode, "bytes", b))
		// the same bytes as the header packet's content and behind a genuine header
		s := seeds[r.Intn(len(seeds))]
		if p := takeApart(s.mode, s.major, s.msg); p != nil {
			emit(codecCase("codec.list.random", s.mode, "header-bytes", p.build(nil, mvBinOf(b), p.packets)))
			emit(codecCase("codec.list.random", s.mode, "packet-bytes", append(p.build(p.inner, nil, nil), b...)))
		}
	}
}

func randMV(r *prng.R, pal []struct {
	label string
	v     *MV
}, depth int) *MV {
	if depth == 0 || r.Intn(3) > 0 {
		return pal[r.Intn(len(pal))].v
	}
	n := r.Intn(5)
	if r.Intn(4) == 0 {
		m := &MV{K: mvMap}
		for i := 0; i < n; i++ {
			m.Map = append(m.Map, [2]*MV{randMV(r, pal, depth-1), randMV(r, pal, depth-1)})
		}
		return m
	}
	a := &MV{K: mvArr}
	for i := 0; i < n; i++ {
		a.Arr = append(a.Arr, randMV(r, pal, depth-1))
	}
	return a
}

func init() {
	regExtra("C15", genCodecList)
	regExtra("C02", func(ctx *Ctx, emit func(Case)) {
		// the authenticity streams reach the model through its own decoder for hostile bytes: the same tie, smaller
		sub := *ctx
		sub.Quick = true
		sub.R = ctx.R.Fork()
		genCodecList(&sub, emit)
	})
	// the streams alone (development, measurement of the modelled share): corr -prop XF
	register("XF", &propDef{streams: genCodecList, level: "correspondence"})
}
