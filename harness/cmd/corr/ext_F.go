package main

// Extension slot F: request lines (goExecExtF) and generators (registered with regExtra) of one model extension.

func goExecExtF(t []string) (string, bool) {
	switch t[0] {
	}
	return "", false
}

func init() {
	// regExtra("Cnn", func(ctx *Ctx, emit func(Case)) { … })
}
