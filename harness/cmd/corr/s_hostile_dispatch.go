package main

// C15 / C16: the convenience entry point ClassifyEncryptedStreamAndMakeDecoder under HOSTILE input. Every
// mutation of the encryption and signcryption families (and attached signatures, which it must refuse) is
// given to it in binary and armored form; it must not panic, and it must behave as the direct entry point for
// the same bytes: accept exactly when that accepts, release the same bytes, name the same sender.

import (
	"fmt"
	"strings"

	"verifharness/internal/keys"
	"verifharness/internal/prng"
)

func field(out, name string) string {
	for _, f := range strings.Fields(out) {
		if strings.HasPrefix(f, name) {
			return f
		}
	}
	return ""
}

func genHostileDispatch(ctx *Ctx, emit func(Case)) {
	r := ctx.R.Fork()
	var fams []*family
	fams = append(fams, encFamilies(ctx, r, ctx.N(4, 16))...)
	fams = append(fams, scFamilies(ctx, r, ctx.N(3, 12))...)
	for _, f := range fams {
		ms := allMutations(ctx, r, f, false)
		for _, g := range f.msgs {
			ms = append(ms, mutation{"genuine", g.msg})
		}
		for mi, m := range ms {
			if ctx.Quick && m.label != "genuine" && !strings.HasPrefix(m.label, "h.") && mi%3 != 0 { // quick: all header edits, a third of the rest
				continue
			}
			base := f.openLine(m.msg)
			direct := goExec(base)
			ep := prng.Pick(r, "dispatch", "dispatch", "armdispatch")
			line := base + " ep=" + ep
			disp := goExec(line)
			label := m.label
			emit(Case{Stream: "hostile.dispatch", Line: fmt.Sprintf("noop hostile.dispatch %s %s %s", f.mode, label, ep), GoOut: "bad-op",
				Branch: fmt.Sprintf("%s/%s/%s/%s", f.mode, ep, strings.SplitN(label, ".", 2)[0], resClass(disp)),
				Sample: map[string]interface{}{"op": "ClassifyEncryptedStreamAndMakeDecoder", "mode": f.mode, "mutation": label, "form": ep, "outcome": resClass(disp), "direct_outcome": resClass(direct)},
				Direct: func() string {
					if strings.HasPrefix(disp, "panic") || resClass(disp) == "panic" {
						return fmt.Sprintf("hostile input crashes ClassifyEncryptedStreamAndMakeDecoder (%s; the direct entry point answers %s): mutation %s — request %s", trunc(disp, 120), resClass(direct), label, trunc(line, 900))
					}
					dOK, pOK := resClass(direct) == "ok", resClass(disp) == "ok"
					// the classifier may be STRICTER than the decoders (a header object encoded as str instead of bin is
					// "not saltpack" to it while go-codec's lenient decoding lets the direct entry point open it): refusing
					// without releasing anything is fine; accepting what the direct entry point refuses is not
					if pOK && !dOK {
						return fmt.Sprintf("ClassifyEncryptedStreamAndMakeDecoder accepts bytes the direct entry point refuses (direct: %s): mutation %s — request %s", resClass(direct), label, trunc(line, 900))
					}
					if dOK && !pOK {
						if rel := field(disp, "rel="); rel != "rel=-" && rel != "rel=" {
							return fmt.Sprintf("ClassifyEncryptedStreamAndMakeDecoder fails (%s) after releasing bytes of a message the direct entry point opens cleanly: mutation %s — request %s", resClass(disp), label, trunc(line, 900))
						}
						return ""
					}
					if field(direct, "rel=") != field(disp, "rel=") && !strings.HasPrefix(resClass(disp), "dispatched-as") && field(disp, "rel=") != "rel=-" {
						return fmt.Sprintf("ClassifyEncryptedStreamAndMakeDecoder releases other bytes than the direct entry point (dispatch %s %s, direct %s %s): mutation %s — request %s", resClass(disp), trunc(field(disp, "rel="), 60), resClass(direct), trunc(field(direct, "rel="), 60), label, trunc(line, 900))
					}
					if dOK && field(direct, "sender=") != field(disp, "sender=") {
						return fmt.Sprintf("ClassifyEncryptedStreamAndMakeDecoder names another sender than the direct entry point: %s vs %s — request %s", field(disp, "sender="), field(direct, "sender="), trunc(line, 900))
					}
					return ""
				}})
		}
	}
	_ = keys.Hex
}

func init() {
	regExtra("C15", genHostileDispatch)
	regExtra("C16", genHostileDispatch)
}
