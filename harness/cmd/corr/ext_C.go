package main

// Extension slot C: request lines (goExecExtC) and generators (registered with regExtra) of one model extension.

func goExecExtC(t []string) (string, bool) {
	switch t[0] {
	}
	return "", false
}

func init() {
	// regExtra("Cnn", func(ctx *Ctx, emit func(Case)) { … })
}
