package main

// Extension slot C — the ORACLE of C08 under test: the strict reference decoder
// (Lean, Model/SpecDecode.lean, layer W) must accept every genuine output of the
// library in every mode and give back the very same bytes (render∘parse = id),
// and must reject every non-canonical re-encoding of a genuine output:
// bin8→bin16, fixarray→array16, str↔bin, nil for an empty bin, an extra array
// element, a trailing byte/object, a non-minimal integer.
//
// Request line:  sdw <enc|att|det|sc> <hex>  →  ok <hex> | reject <why>
// goExecExtC answers the same line with an independent strictness check written
// in Go over the harness's own MessagePack tree (mp.go): canonical re-encoding
// must reproduce the bytes, and the tree must have the mode's shape.

import (
	"bytes"
	"fmt"
	"strings"

	"verifharness/internal/keys"
)

func isBinLen(v *MV, n int) bool { return v != nil && v.K == mvBin && (n < 0 || len(v.Data) == n) }

func intOf(v *MV) (int64, bool) {
	switch v.K {
	case mvUint:
		return int64(v.U), true
	case mvInt:
		return v.I, true
	}
	return 0, false
}

func canonicalObjs(b []byte) ([]*MV, bool) {
	objs, rest := mpSplit(b)
	if len(rest) != 0 {
		return nil, false
	}
	var out []*MV
	for _, o := range objs {
		v, r, err := mpParse(o)
		if err != nil || len(r) != 0 || !bytes.Equal(mpEncode(v), o) {
			return nil, false
		}
		out = append(out, v)
	}
	return out, true
}

// strictShapeGo: "" when the byte string is a canonical message of the mode.
func strictShapeGo(mode string, msg []byte) string {
	objs, ok := canonicalObjs(msg)
	if !ok {
		return "not canonical MessagePack"
	}
	if len(objs) == 0 || objs[0].K != mvBin {
		return "header packet"
	}
	in, ok := canonicalObjs(objs[0].Data)
	if !ok || len(in) != 1 || in[0].K != mvArr {
		return "inner header"
	}
	f := in[0].Arr
	want := map[string]int{"enc": 6, "att": 5, "det": 5, "sc": 6}[mode]
	typ := map[string]int64{"enc": 0, "att": 1, "det": 2, "sc": 3}[mode]
	if len(f) != want || f[0].K != mvStr || string(f[0].Data) != "saltpack" || f[1].K != mvArr || len(f[1].Arr) != 2 {
		return "header fields"
	}
	major, ok1 := intOf(f[1].Arr[0])
	minor, ok2 := intOf(f[1].Arr[1])
	ty, ok3 := intOf(f[2])
	if !ok1 || !ok2 || !ok3 || (major != 1 && major != 2) || minor != 0 || ty != typ {
		return "version / mode"
	}
	pk := objs[1:]
	flagged := func(p *MV, n int) ([]*MV, bool) { // packet elements after the V2 final flag
		if p.K != mvArr {
			return nil, false
		}
		if major == 1 {
			return p.Arr, len(p.Arr) == n
		}
		return p.Arr[min(1, len(p.Arr)):], len(p.Arr) == n+1 && p.Arr[0].K == mvBool
	}
	switch mode {
	case "enc", "sc":
		if mode == "sc" && major != 2 {
			return "signcryption major"
		}
		if !isBinLen(f[3], 32) || !isBinLen(f[4], 48) || f[5].K != mvArr {
			return "key fields"
		}
		for _, r := range f[5].Arr {
			if r.K != mvArr || len(r.Arr) != 2 || !isBinLen(r.Arr[1], 48) {
				return "recipient"
			}
			if mode == "enc" && !(r.Arr[0].K == mvNil || isBinLen(r.Arr[0], 32)) {
				return "recipient key id"
			}
			if mode == "sc" && !isBinLen(r.Arr[0], -1) {
				return "recipient identifier"
			}
		}
		for _, p := range pk {
			if mode == "sc" {
				if p.K != mvArr || len(p.Arr) != 2 || !isBinLen(p.Arr[0], -1) || p.Arr[1].K != mvBool {
					return "packet"
				}
				continue
			}
			e, ok := flagged(p, 2)
			if !ok || e[0].K != mvArr || !isBinLen(e[1], -1) {
				return "packet"
			}
			for _, a := range e[0].Arr {
				if !isBinLen(a, 32) {
					return "authenticator"
				}
			}
		}
	case "att":
		if !isBinLen(f[3], 32) || !isBinLen(f[4], -1) {
			return "key fields"
		}
		for _, p := range pk {
			e, ok := flagged(p, 2)
			if !ok || !isBinLen(e[0], 64) || !isBinLen(e[1], -1) {
				return "packet"
			}
		}
	case "det":
		if !isBinLen(f[3], 32) || !isBinLen(f[4], -1) || len(pk) != 1 || !isBinLen(pk[0], 64) {
			return "detached"
		}
	}
	return ""
}

func goExecExtC(t []string) (string, bool) {
	switch t[0] {
	case "sdw":
		if len(t) != 3 {
			return "", false
		}
		msg := unhex(t[2])
		if why := strictShapeGo(t[1], msg); why != "" {
			return "reject " + strings.ReplaceAll(why, " ", "_"), true
		}
		return "ok " + keys.Hex(msg), true
	}
	return "", false
}

func cmpOracle(goOut, modelOut string) bool {
	if strings.HasPrefix(goOut, "reject") {
		return strings.HasPrefix(modelOut, "reject")
	}
	return goOut == modelOut
}

// nonCanonical: every non-canonical re-encoding of one genuine message (same
// tree for a lenient parser, other bytes).
func nonCanonical(msg []byte) map[string][]byte {
	out := map[string][]byte{}
	hdrObj, inner, packets, _ := splitMsg(msg)
	if inner == nil {
		return out
	}
	hv, _, _ := mpParse(hdrObj)
	reHdr := func(in *MV, wideOuter, strOuter bool) []byte {
		o := &MV{K: mvBin, Data: mpEncode(in), Wide: wideOuter}
		if strOuter {
			o.K = mvStr
		}
		return joinMsg(mpEncode(o), packets)
	}
	out["header.bin-wide"] = reHdr(inner, true, false)
	out["header.bin-as-str"] = reHdr(inner, false, true)
	_ = hv
	edit := func(name string, f func(in *MV)) {
		in := inner.clone()
		f(in)
		out[name] = reHdr(in, false, false)
	}
	edit("header.array-wide", func(in *MV) { in.Wide = true })
	edit("header.name-wide", func(in *MV) { in.Arr[0].Wide = true })
	edit("header.name-as-bin", func(in *MV) { in.Arr[0].K = mvBin })
	edit("header.version-array-wide", func(in *MV) { in.Arr[1].Wide = true })
	edit("header.major-wide", func(in *MV) { in.Arr[1].Arr[0].Wide = true })
	edit("header.minor-wide", func(in *MV) { in.Arr[1].Arr[1].Wide = true })
	edit("header.mode-wide", func(in *MV) { in.Arr[2].Wide = true })
	edit("header.key-wide", func(in *MV) { in.Arr[3].Wide = true })
	edit("header.key-as-str", func(in *MV) { in.Arr[3].K = mvStr })
	edit("header.field4-wide", func(in *MV) { in.Arr[4].Wide = true })
	edit("header.field4-as-str", func(in *MV) { in.Arr[4].K = mvStr })
	edit("header.extra-element", func(in *MV) { in.Arr = append(in.Arr, mvIntOf(7)) })
	edit("header.extra-nil", func(in *MV) { in.Arr = append(in.Arr, &MV{K: mvNil}) })
	if len(inner.Arr) == 6 && inner.Arr[5].K == mvArr && len(inner.Arr[5].Arr) > 0 {
		edit("recipients.array-wide", func(in *MV) { in.Arr[5].Wide = true })
		edit("recipient.pair-wide", func(in *MV) { in.Arr[5].Arr[0].Wide = true })
		edit("recipient.box-wide", func(in *MV) { in.Arr[5].Arr[0].Arr[1].Wide = true })
		edit("recipient.box-as-str", func(in *MV) { in.Arr[5].Arr[0].Arr[1].K = mvStr })
		edit("recipient.extra-element", func(in *MV) {
			in.Arr[5].Arr[0].Arr = append(in.Arr[5].Arr[0].Arr, mvBoolOf(true))
		})
		if inner.Arr[5].Arr[0].Arr[0].K == mvBin {
			edit("recipient.id-wide", func(in *MV) { in.Arr[5].Arr[0].Arr[0].Wide = true })
			edit("recipient.id-as-str", func(in *MV) { in.Arr[5].Arr[0].Arr[0].K = mvStr })
		} else {
			edit("recipient.nil-id-as-empty-bin", func(in *MV) { in.Arr[5].Arr[0].Arr[0] = mvBinOf(nil) })
		}
	}
	// packets
	for pi, po := range packets {
		if pi > 1 && pi != len(packets)-1 {
			continue
		}
		pv, _, err := mpParse(po)
		if err != nil {
			continue
		}
		pedit := func(name string, f func(p *MV) bool) {
			p := pv.clone()
			if !f(p) {
				return
			}
			np := append([][]byte(nil), packets...)
			np[pi] = mpEncode(p)
			out[fmt.Sprintf("packet%d.%s", pi, name)] = joinMsg(hdrObj, np)
		}
		pedit("outer-wide", func(p *MV) bool { p.Wide = true; return true })
		if pv.K != mvArr {
			pedit("as-str", func(p *MV) bool { p.K = mvStr; return true })
			continue
		}
		pedit("extra-element", func(p *MV) bool { p.Arr = append(p.Arr, mvIntOf(0)); return true })
		for ei := range pv.Arr {
			ei := ei
			switch pv.Arr[ei].K {
			case mvBin:
				pedit(fmt.Sprintf("f%d-wide", ei), func(p *MV) bool { p.Arr[ei].Wide = true; return true })
				pedit(fmt.Sprintf("f%d-as-str", ei), func(p *MV) bool { p.Arr[ei].K = mvStr; return true })
				if len(pv.Arr[ei].Data) == 0 {
					pedit(fmt.Sprintf("f%d-empty-as-nil", ei), func(p *MV) bool { p.Arr[ei] = &MV{K: mvNil}; return true })
				}
			case mvBool:
				pedit(fmt.Sprintf("f%d-bool-as-int", ei), func(p *MV) bool {
					b := int64(0)
					if p.Arr[ei].B {
						b = 1
					}
					p.Arr[ei] = mvIntOf(b)
					return true
				})
			case mvArr:
				pedit(fmt.Sprintf("f%d-array-wide", ei), func(p *MV) bool { p.Arr[ei].Wide = true; return true })
				if len(pv.Arr[ei].Arr) > 0 {
					pedit(fmt.Sprintf("f%d-auth-wide", ei), func(p *MV) bool { p.Arr[ei].Arr[0].Wide = true; return true })
					pedit(fmt.Sprintf("f%d-auth-as-str", ei), func(p *MV) bool { p.Arr[ei].Arr[0].K = mvStr; return true })
				}
			}
		}
	}
	for _, tb := range [][]byte{{0xc0}, {0x00}, {0xc1}, {0xc4}, {0x90}} {
		out[fmt.Sprintf("trailing-%02x", tb[0])] = append(append([]byte(nil), msg...), tb...)
	}
	if len(msg) > 1 {
		out["truncated-1"] = msg[:len(msg)-1]
	}
	return out
}

func genOracle(ctx *Ctx, emit func(Case)) {
	r := ctx.R.Fork()
	lens := []int{0, 1, 40}
	for i := 0; i < ctx.N(2, 30); i++ {
		lens = append(lens, smallLen(r))
	}
	if !ctx.Quick {
		lens = append(lens, mib+1)
	}
	one := func(mode string, msg []byte, tag string) {
		line := fmt.Sprintf("sdw %s %s", mode, keys.Hex(msg))
		emit(Case{Stream: "oracle.genuine", Line: line, GoOut: goExec(line), Cmp: cmpOracle, Branch: mode + "/" + tag,
			Direct: func() string {
				if g := goExec(line); !strings.HasPrefix(g, "ok ") {
					return "harness: the Go-side strictness check refuses a genuine " + mode + " message: " + g
				}
				return ""
			}})
		if len(msg) > 4096 {
			return
		}
		for name, mb := range nonCanonical(msg) {
			if bytes.Equal(mb, msg) {
				continue
			}
			l := fmt.Sprintf("sdw %s %s", mode, keys.Hex(mb))
			emit(Case{Stream: "oracle.noncanonical", Line: l, GoOut: "reject", Cmp: cmpOracle, Branch: mode + "/" + name,
				Direct: func() string {
					if g := goExec(l); !strings.HasPrefix(g, "reject") {
						return "harness: the Go-side strictness check accepts the non-canonical re-encoding " + name
					}
					return ""
				}})
		}
	}
	for li, n := range lens {
		c := randEncConfig(r, n)
		if n >= mib-1 {
			c.recips, c.hidden = c.recips[:1], c.hidden[:1]
			c.src = randScript(r, 1, c.ephRand, -1, 0)
		}
		if m, ok := okBytes(goExec(c.line())); ok {
			one("enc", m, fmt.Sprintf("v%d/%s", c.v.Major, sizeClass(n)))
		}
		major := 1 + li%2
		signer, msgb := r.Bytes(32), r.Bytes(n)
		if m, ok := okBytes(goExec(fmt.Sprintf("sig.attached %d 0 %s %s %d %s", major, keys.Hex(signer), randSigScript(r, -1, 0).Spec(), mib, keys.Hex(msgb)))); ok {
			one("att", m, fmt.Sprintf("v%d/%s", major, sizeClass(n)))
		}
		if m, ok := okBytes(goExec(fmt.Sprintf("sig.detached %d 0 %s %s %s", major, keys.Hex(signer), randSigScript(r, -1, 0).Spec(), keys.Hex(msgb)))); ok {
			one("det", m, fmt.Sprintf("v%d", major))
		}
		sec, symk, ident := r.Bytes(32), r.Bytes(32), r.Bytes(32)
		boxes, syms := "b:"+keys.Hex(boxPub(sec)), "s:"+keys.Hex(symk)+":"+keys.Hex(ident)
		snd := keys.Hex(signer)
		if li%3 == 0 {
			snd = "anon"
		}
		if m, ok := okBytes(goExec(fmt.Sprintf("sc.seal %s %s %s g:%s %s %d %s", snd, boxes, syms, keys.Hex(r.Bytes(32)), randScript(r, 2, false, -1, 0).Spec(), mib, keys.Hex(msgb)))); ok {
			one("sc", m, sizeClass(n))
		}
	}
}

func init() {
	regExtra("C08", genOracle)
}
