package main

import (
	"bufio"
	"bytes"
	"fmt"
	"io"
	"strings"

	"github.com/keybase/saltpack"
	"verifharness/internal/keys"
	"verifharness/internal/prng"
	"verifharness/internal/script"
)

func verdict(err error) string {
	switch err {
	case saltpack.ErrShortSliceOrBuffer:
		return "short"
	case saltpack.ErrNotASaltpackMessage:
		return "not"
	case io.EOF, io.ErrUnexpectedEOF:
		return "eof"
	}
	return "err:" + err.Error()
}

func goExecMore4(t []string) (string, bool) {
	switch t[0] {
	case "cl.bin":
		typ, ver, err := saltpack.IsSaltpackBinarySlice(unhex(t[1]))
		if err != nil {
			return verdict(err), true
		}
		return fmt.Sprintf("ok %d %d.%d", int(typ), ver.Major, ver.Minor), true
	case "cl.arm":
		brand, typ, ver, err := saltpack.IsSaltpackArmoredPrefix(string(unhex(t[1])))
		if err != nil {
			return verdict(err), true
		}
		return fmt.Sprintf("ok %s %d %d.%d", keys.Hex([]byte(brand)), int(typ), ver.Major, ver.Minor), true
	case "cl.stream":
		b := unhex(t[2])
		rd := bufio.NewReaderSize(bytes.NewReader(b), atoi(t[1]))
		arm, brand, typ, ver, err := saltpack.ClassifyStream(rd)
		rest, _ := io.ReadAll(rd)
		rem := fmt.Sprintf("remaining=%d", len(rest))
		if !bytes.Equal(rest, b) {
			rem = "remaining=CONSUMED"
		}
		if err != nil {
			return verdict(err) + " " + rem, true
		}
		return fmt.Sprintf("ok armored=%s %s %d %d.%d %s", boolS(arm), keys.Hex([]byte(brand)), int(typ), ver.Major, ver.Minor, rem), true
	}
	for _, f := range []func([]string) (string, bool){goExecExtA, goExecExtB, goExecExtC, goExecExtD, goExecExtF, goExecExtG} {
		if out, ok := f(t); ok {
			return out, true
		}
	}
	return "", false
}

// genuine messages of every mode/version, binary
func classifyCorpus(r *prng.R) []struct {
	mode  int
	major int
	msg   []byte
} {
	var out []struct {
		mode  int
		major int
		msg   []byte
	}
	add := func(mode, major int, line string) {
		out = append(out, struct {
			mode  int
			major int
			msg   []byte
		}{mode, major, mustOK(askGen(line), line)})
	}
	for major := 1; major <= 2; major++ {
		for _, o := range []specOpts{{}, {min: 7, hx: 2}, {min: 200}} {
			n := 40
			m := specEnc(r, major, o, n)
			out = append(out, struct {
				mode  int
				major int
				msg   []byte
			}{0, major, m.msg})
			a := specAtt(r, major, o, n)
			out = append(out, struct {
				mode  int
				major int
				msg   []byte
			}{1, major, a.msg})
			d := specDet(r, major, o, n)
			out = append(out, struct {
				mode  int
				major int
				msg   []byte
			}{2, major, d.msg})
		}
	}
	s := specSc(r, specOpts{}, 40)
	out = append(out, struct {
		mode  int
		major int
		msg   []byte
	}{3, 2, s.msg})
	_ = add
	// messages of the library itself whose header packet needs a bin16 / bin32
	// length (5 and 800 recipients: the header is > 255 and > 65535 bytes long)
	for _, nrec := range []int{5, 800} {
		sec := make([]byte, 32)
		sec[0] = 9
		cr := &keys.EphCreator{Secret: sec}
		var rs []saltpack.BoxPublicKey
		for i := 0; i < nrec; i++ {
			rs = append(rs, keys.NewBoxSecret(r.Bytes(32), false, nil, cr).Pub)
		}
		for major := 1; major <= 2; major++ {
			var m []byte
			var err error
			script.With(&prngReader{r}, func() { m, err = saltpack.Seal(saltpack.Version{Major: major}, []byte("many recipients"), nil, rs) })
			if err != nil {
				panic(err)
			}
			out = append(out, struct {
				mode  int
				major int
				msg   []byte
			}{0, major, m})
		}
		var m []byte
		var err error
		script.With(&prngReader{r}, func() { m, err = saltpack.SigncryptSeal([]byte("many recipients"), cr, nil, rs, nil) })
		if err != nil {
			panic(err)
		}
		out = append(out, struct {
			mode  int
			major int
			msg   []byte
		}{3, 2, m})
	}
	return out
}

type prngReader struct{ r *prng.R }

func (p *prngReader) Read(b []byte) (int, error) { return copy(b, p.r.Bytes(len(b))), nil }

func armorTypeFor(mode int) saltpack.MessageType {
	switch mode {
	case 1:
		return saltpack.MessageTypeAttachedSignature
	case 2:
		return saltpack.MessageTypeDetachedSignature
	}
	return saltpack.MessageTypeEncryption
}

func genClassify(ctx *Ctx, emit func(Case)) {
	r := ctx.R.Fork()
	corpus := classifyCorpus(r)
	brands := []string{"", "KEYBASE", "SALTPACK", "BEGIN", strings.Repeat("x", 128)}
	for ci, c := range corpus {
		c := c
		want := fmt.Sprintf("%d %d.", c.mode, c.major)
		// --- binary: every prefix length (up to a bound), classification correct / short, never "not"
		maxk := len(c.msg)
		if maxk > ctx.N(60, 400) {
			maxk = ctx.N(60, 400)
		}
		for k := 0; k <= maxk; k++ {
			k := k
			line := "cl.bin " + keys.Hex(c.msg[:k])
			out := goExec(line)
			emit(Case{Stream: "classify.binary.prefix", Line: line, GoOut: out, Branch: fmt.Sprintf("mode%d.v%d/k<23=%v/%s", c.mode, c.major, k < 23, strings.Fields(out)[0]),
				Sample: map[string]interface{}{"op": "IsSaltpackBinarySlice", "mode": c.mode, "major": c.major, "prefix_len": k, "answer": out},
				Direct: func() string {
					ok := (k < 23 && out == "short") || (k >= 23 && strings.HasPrefix(out, "ok "+want))
					if !ok {
						return fmt.Sprintf("IsSaltpackBinarySlice on the first %d bytes of a genuine mode-%d v%d message answers %q", k, c.mode, c.major, out)
					}
					return ""
				}})
		}
		// --- armored, several brands and re-flows: every prefix
		for bi, brand := range brands {
			if ctx.Quick && (ci+bi)%3 != 0 {
				continue
			}
			arm, _ := saltpack.Armor62Seal(c.msg, armorTypeFor(c.mode), brand)
			texts := []string{arm, reflow(r, arm, 6)}
			for _, text := range texts {
				text := text
				brand := brand
				step := 1
				if len(text) > ctx.N(140, 1200) {
					step = len(text)/ctx.N(140, 1200) + 1
				}
				ks := []int{}
				for k := 0; k <= len(text) && k < 400; k++ { // dense at the front (frame + first block)
					ks = append(ks, k)
				}
				for k := 400; k <= len(text); k += step {
					ks = append(ks, k)
				}
				ks = append(ks, len(text))
				for _, k := range ks {
					k := k
					line := "cl.arm " + keys.Hex([]byte(text[:k]))
					out := goExec(line)
					emit(Case{Stream: "classify.armored.prefix", Line: line, GoOut: out, Branch: fmt.Sprintf("mode%d.v%d/brand%d/%s", c.mode, c.major, len(brand), strings.Fields(out)[0]),
						Direct: func() string {
							full := fmt.Sprintf("ok %s %d %d.", keys.Hex([]byte(brand)), c.mode, c.major)
							if out == "short" || strings.HasPrefix(out, full) {
								if k == len(text) && out == "short" {
									return fmt.Sprintf("IsSaltpackArmoredPrefix answers 'short' on a complete armored message (mode %d v%d brand %q)", c.mode, c.major, brand)
								}
								return ""
							}
							return fmt.Sprintf("IsSaltpackArmoredPrefix on the first %d characters of a genuine armored mode-%d v%d message (brand %q) answers %q: %q", k, c.mode, c.major, brand, out, trunc(text[:k], 200))
						}})
				}
				// streams: buffer sizes from the documented minimum upward; nothing consumed
				for _, size := range []int{16, 23, 64, 512, 4096, 65536} {
					line := fmt.Sprintf("cl.stream %d %s", size, keys.Hex([]byte(text)))
					out := goExec(line)
					emit(Case{Stream: "classify.stream.armored", Line: line, GoOut: out, Branch: fmt.Sprintf("size=%d/%s", size, strings.Fields(out)[0]),
						Direct: func() string {
							if strings.Contains(out, "CONSUMED") {
								return "ClassifyStream consumed input: " + trunc(line, 200)
							}
							if strings.HasPrefix(out, "ok") && !strings.HasPrefix(out, fmt.Sprintf("ok armored=true %s %d %d.", keys.Hex([]byte(brand)), c.mode, c.major)) {
								return fmt.Sprintf("ClassifyStream misclassifies an armored mode-%d v%d message: %s", c.mode, c.major, out)
							}
							if strings.HasPrefix(out, "not") {
								return fmt.Sprintf("ClassifyStream answers not-saltpack for a genuine armored message (bufio size %d)", size)
							}
							return ""
						}})
				}
			}
		}
		for _, size := range []int{23, 24, 100, 4096} {
			line := fmt.Sprintf("cl.stream %d %s", size, keys.Hex(c.msg))
			out := goExec(line)
			emit(Case{Stream: "classify.stream.binary", Line: line, GoOut: out, Branch: fmt.Sprintf("size=%d/%s", size, strings.Fields(out)[0]),
				Direct: func() string {
					if strings.Contains(out, "CONSUMED") {
						return "ClassifyStream consumed input: " + trunc(line, 200)
					}
					if !strings.HasPrefix(out, fmt.Sprintf("ok armored=false - %d %d.", c.mode, c.major)) {
						return fmt.Sprintf("ClassifyStream on a genuine binary mode-%d v%d message with bufio size %d answers %s", c.mode, c.major, size, out)
					}
					return ""
				}})
		}
	}
	// --- Unicode white space around genuine armored prefixes (IsSaltpackArmoredPrefix trims with strings.TrimSpace)
	for k := 0; k < ctx.N(150, 2000); k++ {
		c := corpus[r.Intn(len(corpus))]
		if len(c.msg) > 4000 {
			continue
		}
		arm, _ := saltpack.Armor62Seal(c.msg, armorTypeFor(c.mode), prng.Pick(r, "", "KB"))
		cut := prng.Pick(r, len(arm), r.Intn(len(arm)+1), 10+r.Intn(80))
		if cut > len(arm) {
			cut = len(arm)
		}
		text := unicodeEnds(r) + arm[:cut] + unicodeEnds(r)
		line := "cl.arm " + keys.Hex([]byte(text))
		out := goExec(line)
		emit(Case{Stream: "classify.armored.unicode", Line: line, GoOut: out, Branch: strings.Fields(out)[0]})
		if k%3 == 0 {
			l2 := fmt.Sprintf("cl.stream %d %s", prng.Pick(r, 64, 512, 4096), keys.Hex([]byte(text)))
			o2 := goExec(l2)
			emit(Case{Stream: "classify.stream.unicode", Line: l2, GoOut: o2, Branch: strings.Fields(o2)[0],
				Direct: func() string {
					if strings.Contains(o2, "CONSUMED") {
						return "ClassifyStream consumed input: " + trunc(l2, 200)
					}
					return ""
				}})
		}
	}
	// --- arbitrary non-saltpack strings and near misses
	al := []string{"BEGIN", "END", "SALTPACK", "ENCRYPTED", "MESSAGE", "SIGNED", "DETACHED", "SIGNATURE", "KEYBASE", ".", " ", "  ", "\n", ">", "x", "B", "BEG", "SALT", "0", "kYM5h1pg6qz9UMn", "!", "-----BEGIN PGP MESSAGE-----"}
	for k := 0; k < ctx.N(1500, 20000); k++ {
		var sb strings.Builder
		for i := 0; i < r.Intn(9); i++ {
			sb.WriteString(al[r.Intn(len(al))])
			if r.Intn(3) > 0 {
				sb.WriteString(" ")
			}
		}
		s := sb.String()
		line := "cl.arm " + keys.Hex([]byte(s))
		out := goExec(line)
		emit(Case{Stream: "classify.armored.random", Line: line, GoOut: out, Branch: strings.Fields(out)[0]})
		if k%4 == 0 {
			l2 := fmt.Sprintf("cl.stream %d %s", prng.Pick(r, 16, 32, 4096), keys.Hex([]byte(s)))
			o2 := goExec(l2)
			emit(Case{Stream: "classify.stream.random", Line: l2, GoOut: o2, Branch: strings.Fields(o2)[0],
				Direct: func() string {
					if strings.Contains(o2, "CONSUMED") {
						return "ClassifyStream consumed input: " + trunc(l2, 200)
					}
					return ""
				}})
		}
	}
	for k := 0; k < ctx.N(800, 10000); k++ { // binary near misses
		b := append([]byte(nil), corpus[r.Intn(len(corpus))].msg[:40]...)
		switch r.Intn(5) {
		case 0:
			b[r.Intn(30)] ^= 1 << uint(r.Intn(8))
		case 1:
			b = r.Bytes(30)
		case 2:
			b[0] = prng.Pick(r, byte(0xc4), byte(0xc5), byte(0xc6), byte(0xc7), byte(0xd9))
		case 3:
			b[2] = byte(r.Intn(256))
		}
		n := prng.Pick(r, 23, 23, 30, 40)
		if n > len(b) {
			n = len(b)
		}
		line := "cl.bin " + keys.Hex(b[:n])
		out := goExec(line)
		emit(Case{Stream: "classify.binary.mutated", Line: line, GoOut: out, Branch: strings.Fields(out)[0]})
	}
}

func init() {
	reg("C16", func(ctx *Ctx, emit func(Case)) { genClassify(ctx, emit); genDispatch(ctx, emit) },
		[]string{"bufio buffer at least the documented minimum (23 bytes binary; frame + first 43-character block armored; the convenience entry point uses 4096)"},
		[]string{"regexp of the Go stdlib (three expressions re-implemented as recognisers and compared on generated strings)", "bufio.Reader.Peek", "go-codec (format-name/version/type decoding in the binary classifier)", "harness/cmd/corr"})
}
