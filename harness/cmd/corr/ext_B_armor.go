package main

// Extension slot B, part 2 (task E): the BARE armor encoder stream over a faulting writer.
//
//   st.sender armor <typ> <brand> <sink> <ops>
//
// The real NewArmor62EncoderStream (armor.go armorEncoderStream.Write / spaceAndOutputBuffer /
// Close after fix 5ad1caa, defect D13) is driven call by call by execSender (ext_B.go) over a
// writer whose k-th Write fails as the sink script says; the caller CARRIES ON after an error
// (every op of the list is executed whatever the earlier ones returned).  Compared exactly with
// the model (Sender.FArm.init62 / writeN / close / calls, lean/Driver/ExtB.lean runBareArmor):
// per call (n, error class), the bytes at the writer after every call, the sizes of all attempted
// underlying writes, what reached the writer.  Stream: sender.fault.armorbare (C14).

import (
	"fmt"
	"strings"

	"verifharness/internal/keys"
	"verifharness/internal/prng"
)

// armorBarePredicate: the property's own predicates on the implementation's answer.
//   - sticky: after the first call that returned an error every later call returns an error and
//     the bytes at the writer do not grow;
//   - "Close never reports success for a message that was not completely written": if the first
//     Close returns success — whatever the Writes before it returned — no underlying write failed
//     and the writer holds exactly the fault-free text;
//   - on failure the writer holds a prefix of the fault-free text (regular usage).
func armorBarePredicate(line, ans, base string, regular bool) string {
	if !strings.HasPrefix(ans, "ok ") {
		return ""
	}
	if senderField(ans, "init") != "ok" {
		if c := senderField(ans, "calls"); c != "-" {
			return fmt.Sprintf("the constructor failed but calls were made: %s -> %s", trunc(line, 300), trunc(ans, 300))
		}
		return ""
	}
	calls := splitL(senderField(ans, "calls"))
	lens := strings.Split(senderField(ans, "lens"), ".")
	firstErr, firstClose := -1, -1
	for i, c := range calls {
		ok := strings.HasSuffix(c, ":ok")
		if !ok && firstErr < 0 {
			firstErr = i
		}
		if strings.HasPrefix(c, "c:") && firstClose < 0 {
			firstClose = i
		}
		if firstErr >= 0 && i > firstErr {
			if ok {
				return fmt.Sprintf("not sticky: call %d returned success after call %d had returned an error: %s -> %s", i, firstErr, trunc(line, 300), trunc(ans, 300))
			}
			if !strings.HasPrefix(c, "c:") && !strings.HasPrefix(c, "0:") {
				return fmt.Sprintf("a refused Write returned n != 0: %s -> %s", trunc(line, 300), trunc(ans, 300))
			}
			if len(lens) == len(calls)+1 && lens[i+1] != lens[firstErr+1] {
				return fmt.Sprintf("bytes reached the writer after the stream had failed: %s -> %s", trunc(line, 300), trunc(ans, 300))
			}
		}
	}
	f := strings.Fields(line)
	sink := sinkBits(f[len(f)-2])
	nTried := 0
	if tr := senderField(ans, "tried"); tr != "-" && tr != "" {
		nTried = len(strings.Split(tr, "."))
	}
	idx := strings.Index(sink, "1")
	faulted := idx >= 0 && idx < nTried
	out, bout := senderField(ans, "out"), senderField(base, "out")
	if regular && firstClose >= 0 && strings.HasSuffix(calls[firstClose], ":ok") {
		if faulted {
			return fmt.Sprintf("Close reports success although an underlying Write failed: %s -> %s", trunc(line, 300), trunc(ans, 300))
		}
		if out != bout {
			return fmt.Sprintf("Close reports success for a message that was not completely written: %s -> %s", trunc(line, 300), trunc(ans, 300))
		}
	}
	if faulted && firstErr < 0 {
		return fmt.Sprintf("an underlying Write failed but every call reported success: %s -> %s", trunc(line, 300), trunc(ans, 300))
	}
	if regular && !strings.HasPrefix(out, "#") && !strings.HasPrefix(bout, "#") && !strings.HasPrefix(bout, out) {
		return fmt.Sprintf("after a fault the bytes at the writer are not a prefix of the fault-free text: %s -> %s", trunc(line, 300), trunc(ans, 300))
	}
	return ""
}

func genArmorBareFaults(ctx *Ctx, emit func(Case)) {
	r := ctx.R.Fork()
	w := func(n int) string { return "w:" + keys.Hex(r.Bytes(n)) }
	for round := 0; round < ctx.N(1, 8); round++ {
		// op lists: regular (writes, one Close) and the irregular usages the code defines
		opsList := []string{
			w(5) + "," + w(40) + ",c",               // the first Write only buffers (less than one BaseX block)
			w(32) + "," + w(64) + "," + w(1) + ",c", // whole blocks: nothing left in the encoder until the last byte
			"c",                                     // empty payload
			"w:-," + w(33) + ",w:-,c",               // empty writes
			w(200) + ",c,c",                         // a second Close
			w(70) + ",c," + w(3) + ",c",             // a Write after Close
			w(r.Intn(300)) + "," + w(r.Intn(50)) + "," + w(r.Intn(5)) + ",c",
			w(2300) + "," + w(40) + ",c",                  // more than one armor line (200 words): a line break inside a Write
			w(11*32+7) + "," + w(25) + "," + w(45) + ",c", // 15-character words against 43-character blocks
		}
		for oi, ops := range opsList {
			typ := prng.Pick(r, 0, 1, 2, 3)
			brand := prng.Pick(r, "-", keys.Hex([]byte("KEYBASE")), keys.Hex([]byte("x")))
			prefix := fmt.Sprintf("st.sender armor %d %s", typ, brand)
			regular := strings.Count(ops, "c") == 1
			baseLine := prefix + " - " + ops
			base := goExec(baseLine)
			emit(Case{Stream: "sender.fault.armorbare", Line: baseLine, GoOut: base, Branch: fmt.Sprintf("ops%d/nofault", oi)})
			total := len(strings.Split(senderField(base, "tried"), "."))
			step := 1
			if lim := ctx.N(24, 400); total > lim {
				step = total/lim + 1
			}
			for k := 0; k < total; k += step {
				for _, sticky := range []bool{false, true} {
					if ctx.Quick && total > 12 && sticky != (k%2 == 0) {
						continue
					}
					line := prefix + " " + sinkString(k, sticky, total) + " " + ops
					out := goExec(line)
					base := base
					emit(Case{Stream: "sender.fault.armorbare", Line: line, GoOut: out,
						Branch: fmt.Sprintf("ops%d/sticky=%v/init=%s/%s", oi, sticky, senderField(out, "init"), callShape(senderField(out, "calls"))),
						Direct: func() string {
							if m := armorBarePredicate(line, out, base, regular); m != "" {
								return m
							}
							return senderPredicate(line, out, base, regular)
						},
						Sample: map[string]interface{}{"stream": "armorbare", "underlying_writes": total, "fault_at": k, "sticky": sticky, "calls": senderField(out, "calls")},
					})
				}
			}
			// the failing write accepts a part of the word / separator / footer before failing
			for k := r.Intn(3); k < total; k += 1 + total/ctx.N(6, 60) {
				sticky := r.Bool()
				line := prefix + " " + sinkString(k, sticky, total) + partSuffix(r, sticky) + " " + ops
				out := goExec(line)
				base := base
				emit(Case{Stream: "sender.fault.armorbare.partial", Line: line, GoOut: out,
					Branch: fmt.Sprintf("ops%d/sticky=%v/%s", oi, sticky, callShape(senderField(out, "calls"))),
					Direct: func() string {
						if m := armorBarePredicate(line, out, base, regular); m != "" {
							return m
						}
						return senderPredicate(line, out, base, regular)
					}})
			}
			// two separate transient faults: the second one is never reached (the stream is dead)
			if total > 6 {
				k1 := 1 + r.Intn(total-4)
				k2 := k1 + 1 + r.Intn(3)
				sink := strings.Repeat("0", k1) + "1" + strings.Repeat("0", k2-k1-1) + "1"
				line := prefix + " " + sink + " " + ops
				out := goExec(line)
				base := base
				emit(Case{Stream: "sender.fault.armorbare", Line: line, GoOut: out,
					Branch: fmt.Sprintf("ops%d/twofaults/%s", oi, callShape(senderField(out, "calls"))),
					Direct: func() string { return armorBarePredicate(line, out, base, regular) }})
			}
		}
	}
}

func init() {
	regExtra("C14", genArmorBareFaults)
}
