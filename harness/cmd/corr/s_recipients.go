package main

// C01 / C03 (senders' input checks, tied to the model's checkReceivers): empty recipient lists and REPEATED recipients —
// the same box key twice, the same symmetric identifier twice, a box key whose id equals a symmetric identifier — must be
// refused by Seal / SigncryptSeal exactly as the model refuses them; distinct lists next to them are accepted.
// (The mutation sweep: skipping the repeated-key detection of checkSigncryptReceivers went unnoticed.)

import (
	"fmt"
	"strings"

	"verifharness/internal/keys"
	"verifharness/internal/prng"
)

func genRecipientChecks(mode string) func(ctx *Ctx, emit func(Case)) {
	return func(ctx *Ctx, emit func(Case)) {
		r := ctx.R.Fork()
		for k := 0; k < ctx.N(16, 120); k++ {
			a, b, c := r.Bytes(32), r.Bytes(32), r.Bytes(32)
			pt := keys.Hex(r.Bytes(prng.Pick(r, 0, 9)))
			if mode == "enc" {
				lists := map[string][]string{
					"empty":    {},
					"dup":      {keys.Hex(boxPub(a)) + ":v", keys.Hex(boxPub(a)) + ":v"},
					"dup.far":  {keys.Hex(boxPub(a)) + ":v", keys.Hex(boxPub(b)) + ":v", keys.Hex(boxPub(a)) + ":v"},
					"dup.hid":  {keys.Hex(boxPub(a)) + ":h", keys.Hex(boxPub(a)) + ":h"},
					"dup.mix":  {keys.Hex(boxPub(a)) + ":v", keys.Hex(boxPub(a)) + ":h"},
					"distinct": {keys.Hex(boxPub(a)) + ":v", keys.Hex(boxPub(b)) + ":h", keys.Hex(boxPub(c)) + ":v"},
				}
				for label, rs := range lists {
					rl := "-"
					if len(rs) > 0 {
						rl = strings.Join(rs, ",")
					}
					n := len(rs)
					src := randScript(r, n, false, -1, 0)
					line := fmt.Sprintf("enc.seal %d 0 %s %s g:%s %s %d %s", 1+k%2, prng.Pick(r, "anon", keys.Hex(r.Bytes(32))), rl, keys.Hex(r.Bytes(32)), src.Spec(), mib, pt)
					out := goExec(line)
					label := label
					emit(Case{Stream: "enc.seal.recipients", Line: line, GoOut: out, Cmp: errCmp, Branch: label + "/" + strings.Fields(out)[0],
						Sample: map[string]interface{}{"op": "Seal", "recipient_list": label, "outcome": strings.Fields(out)[0]},
						Direct: func() string {
							if (label == "distinct") != strings.HasPrefix(out, "ok") {
								return fmt.Sprintf("Seal with the recipient list %q gives %s: %s", label, trunc(out, 60), trunc(line, 400))
							}
							return ""
						}})
				}
				continue
			}
			id1, id2 := r.Bytes(32), r.Bytes(prng.Pick(r, 32, 16))
			type lst struct{ boxes, syms []string }
			lists := map[string]lst{
				"empty":      {},
				"dup.box":    {boxes: []string{"b:" + keys.Hex(boxPub(a)), "b:" + keys.Hex(boxPub(a))}},
				"dup.sym":    {syms: []string{"s:" + keys.Hex(a) + ":" + keys.Hex(id1), "s:" + keys.Hex(b) + ":" + keys.Hex(id1)}},
				"dup.boxsym": {boxes: []string{"b:" + keys.Hex(boxPub(a))}, syms: []string{"s:" + keys.Hex(b) + ":" + keys.Hex(boxPub(a))}},
				"dup.far":    {boxes: []string{"b:" + keys.Hex(boxPub(a)), "b:" + keys.Hex(boxPub(b)), "b:" + keys.Hex(boxPub(a))}},
				"distinct":   {boxes: []string{"b:" + keys.Hex(boxPub(a)), "b:" + keys.Hex(boxPub(b))}, syms: []string{"s:" + keys.Hex(c) + ":" + keys.Hex(id1), "s:" + keys.Hex(a) + ":" + keys.Hex(id2)}},
			}
			for label, l := range lists {
				jl := func(x []string) string {
					if len(x) == 0 {
						return "-"
					}
					return strings.Join(x, ",")
				}
				src := randScript(r, len(l.boxes)+len(l.syms), false, -1, 0)
				line := fmt.Sprintf("sc.seal %s %s %s g:%s %s %d %s", prng.Pick(r, "anon", keys.Hex(r.Bytes(32))), jl(l.boxes), jl(l.syms), keys.Hex(r.Bytes(32)), src.Spec(), mib, pt)
				out := goExec(line)
				label := label
				emit(Case{Stream: "sc.seal.recipients", Line: line, GoOut: out, Cmp: errCmp, Branch: label + "/" + strings.Fields(out)[0],
					Sample: map[string]interface{}{"op": "SigncryptSeal", "recipient_list": label, "outcome": strings.Fields(out)[0]},
					Direct: func() string {
						if (label == "distinct") != strings.HasPrefix(out, "ok") {
							return fmt.Sprintf("SigncryptSeal with the recipient list %q gives %s: %s", label, trunc(out, 60), trunc(line, 400))
						}
						return ""
					}})
			}
		}
	}
}

func init() {
	regExtra("C01", genRecipientChecks("enc"))
	regExtra("C03", genRecipientChecks("sc"))
}
