package main

// C11: the Frame interface of the dearmoring stream — GetHeader / GetBrand / GetFooter and CheckArmor62Frame —
// called BEFORE the first Read, in the middle of the body, after the end, and after failures; per call against
// the model (Stream.fGetHeader / fGetBrand / fGetFooter / fCheckFrame).  (Found missing by the mutation sweep:
// negating the state tests of GetHeader, or the error tests of CheckArmor62Frame, went unnoticed.)

import (
	"fmt"
	"strings"

	"github.com/keybase/saltpack"
	"verifharness/internal/keys"
	"verifharness/internal/prng"
)

func genFrameInterface(ctx *Ctx, emit func(Case)) {
	r := ctx.R.Fork()
	types := []saltpack.MessageType{saltpack.MessageTypeEncryption, saltpack.MessageTypeAttachedSignature, saltpack.MessageTypeDetachedSignature}
	plans := []string{"h.b.f.a.h.b.f.c0", "a.h.f.b.c0.c1.c2", "r10.h.f.r10.b.a.f.c1", "b.a.c0", "f.h.a.f", "c0.a.c0", "r1.r1.h.a.c2.h", "a.a.h.f", "h.h.b.b.a"}
	for k := 0; k < ctx.N(40, 400); k++ {
		typ := types[k%3]
		brand := prng.Pick(r, "", "KB", "SALTPACK", "A1")
		payload := r.Bytes(prng.Pick(r, 0, 1, 40, 100, 300))
		good, _ := saltpack.Armor62Seal(payload, typ, brand)
		parts := strings.SplitN(good, ".", 3)
		text := good
		switch k % 8 {
		case 1:
			text = reflow(r, good, 5)
		case 2: // footer of another type / brand
			other, _ := saltpack.Armor62Seal(payload, types[(k+1)%3], brand)
			text = parts[0] + "." + parts[1] + "." + strings.SplitN(other, ".", 3)[2]
		case 3:
			text = parts[0] + "." + parts[1] + ". END OTHER SALTPACK ENCRYPTED MESSAGE."
		case 4: // truncated inside the body / without footer
			text = good[:len(parts[0])+1+len(parts[1])/2]
		case 5: // malformed header
			text = "BEGIN " + brand + " PGP MESSAGE." + parts[1] + "." + parts[2]
		case 6: // non-ASCII byte in the header
			text = "BEGIN\xc3\xa9 SALTPACK ENCRYPTED MESSAGE." + parts[1] + "." + parts[2]
		}
		for _, expect := range []string{"none", fmt.Sprint(int(typ)), fmt.Sprint(int(types[(k+1)%3]))} {
			plan := plans[r.Intn(len(plans))]
			line := fmt.Sprintf("st.frame %s %s %s", expect, fragment(r, []byte(text), prng.Pick(r, "oneshot", "random", "bytes-eof", "oneshot-eof")), plan)
			out := goExec(line)
			kind, typ, brand := k%8, typ, brand
			emit(Case{Stream: "armor.frame.interface", Line: line, GoOut: out, Branch: fmt.Sprintf("case%d/expect=%s/%s", k%8, expect, plan),
				Sample: map[string]interface{}{"op": "Frame.GetHeader/GetBrand/GetFooter + CheckArmor62Frame at arbitrary moments", "plan": plan, "expect": expect},
				Direct: func() string {
					// the property's own clauses on the implementation's answers
					wantHdr := "h=" + keys.Hex([]byte(saltpack.MakeArmorHeader(typ, brand)))
					for _, f := range strings.Fields(out) {
						switch {
						case kind == 0 && expect != fmt.Sprint(int(types[(k+1)%3])) && strings.HasPrefix(f, "h") && f != wantHdr:
							return fmt.Sprintf("GetHeader on a genuine armored text does not return the header that was written (%s, want %s): %s", trunc(f, 80), trunc(wantHdr, 80), trunc(line, 500))
						case (kind == 2 || kind == 3) && strings.HasPrefix(f, "c="):
							return fmt.Sprintf("CheckArmor62Frame accepts a text whose footer does not mirror the header's brand and type: %s -> %s", trunc(line, 500), trunc(out, 200))
						}
					}
					if kind == 0 || kind == 1 { // after the stream was read to its end the frame of the right type checks, with the brand
						fs := strings.Fields(out)
						ended := false
						for _, f := range fs {
							if strings.HasSuffix(f, ":eof") {
								ended = true
							}
							if ended && strings.HasPrefix(f, "c") && strings.Contains(plan, fmt.Sprintf("c%d", int(typ))) && (f == "c="+keys.Hex([]byte(brand))) {
								return ""
							}
						}
						if ended && strings.HasSuffix(plan, fmt.Sprintf("c%d", int(typ))) && expect != fmt.Sprint(int(types[(k+1)%3])) {
							return fmt.Sprintf("CheckArmor62Frame does not accept the frame of a genuine armored text of its own type with brand %q: %s -> %s", brand, trunc(line, 500), trunc(out, 300))
						}
					}
					return ""
				}})
		}
	}
	_ = keys.Hex
}

// genFrameWords: every frame with exactly ONE word wrong (marker, brand shape, format word, each word of the type
// string), with and without brand, as header and as footer, for every armorable type — through parseFrame, through
// CheckArmor62 (the same wrong word in header AND footer, so that mirroring cannot hide it) and through the
// validating dearmorer. (The mutation sweep: dropping the "bad format name" error went unnoticed because the only
// frame with a wrong format word had a genuine footer that failed the brand comparison anyway.)
func genFrameWords(ctx *Ctx, emit func(Case)) {
	r := ctx.R.Fork()
	payload := r.Bytes(40)
	types := map[int][]string{0: {"ENCRYPTED", "MESSAGE"}, 1: {"SIGNED", "MESSAGE"}, 2: {"DETACHED", "SIGNATURE"}}
	wrong := []string{"PGP", "SALTPACC", "saltpack", "Saltpack", "SALTPACK2", "", "ENCRYPTED", "MESSAGE", "BEGIN", "END", "SIGNED", "X"}
	for typ := 0; typ <= 2; typ++ {
		for _, brand := range []string{"", "KB"} {
			for _, marker := range []string{"BEGIN", "END"} {
				words := []string{marker}
				if brand != "" {
					words = append(words, brand)
				}
				words = append(words, "SALTPACK", types[typ][0], types[typ][1])
				for wi := range words {
					for _, w := range wrong {
						if w == words[wi] {
							continue
						}
						v := append([]string(nil), words...)
						v[wi] = w
						frame := strings.Join(v, " ")
						hf := "h"
						if marker == "END" {
							hf = "f"
						}
						l := fmt.Sprintf("armor.parse %d %s %s", typ, hf, keys.Hex([]byte(frame)))
						o := goExec(l)
						emit(Case{Stream: "armor.parse.oneword", Line: l, GoOut: o, Cmp: errCmp, Branch: fmt.Sprintf("typ%d/word%d/%s", typ, wi, strings.Fields(o)[0])})
						if marker == "BEGIN" && (ctx.Quick && (wi+typ)%2 == 0 || !ctx.Quick) {
							// the same edit in header and footer
							fv := append([]string(nil), v...)
							if wi != 0 {
								fv[0] = "END"
							}
							hdr, ftr := frame, strings.Join(fv, " ")
							l2 := fmt.Sprintf("armor.check %d %s %s", typ, keys.Hex([]byte(hdr)), keys.Hex([]byte(ftr)))
							o2 := goExec(l2)
							emit(Case{Stream: "armor.check.oneword", Line: l2, GoOut: o2, Cmp: errCmp, Branch: fmt.Sprintf("typ%d/word%d/%s", typ, wi, strings.Fields(o2)[0])})
							good, _ := saltpack.Armor62Seal(payload, saltpack.MessageType(typ), brand)
							body := strings.SplitN(good, ".", 3)[1]
							text := hdr + "." + body + ". " + ftr + ".\n"
							l3 := fmt.Sprintf("armor.open %d %s", typ, keys.Hex([]byte(text)))
							o3 := goExec(l3)
							wi, w := wi, w
							emit(Case{Stream: "armor.open.oneword", Line: l3, GoOut: o3, Cmp: errCmp, Branch: fmt.Sprintf("typ%d/word%d/%s", typ, wi, strings.Fields(o3)[0]),
								Direct: func() string {
									// a wrong word anywhere but in the brand slot makes the frame malformed (a brand may be any alphanumeric word)
									brandSlot := brand != "" && wi == 1
									if !brandSlot && strings.HasPrefix(o3, "ok ") {
										return fmt.Sprintf("a text whose header and footer carry the wrong word %q (position %d of the frame) is accepted by the validating dearmorer: %q", w, wi, trunc(text, 300))
									}
									return ""
								}})
						}
					}
				}
			}
		}
	}
}

func init() {
	regExtra("C11", genFrameInterface)
	regExtra("C11", genFrameWords)
}
