package main

// C20, second part: a barrier-started stress of the STATEFUL forms. Every goroutine
// runs its own round trips — streaming writers fed in pieces, streaming readers
// drained a few bytes at a time with a scheduling point before every underlying
// call, key objects that yield before they look at their arguments ("slow device")
// — on keys, keyrings, encodings and armor parameters shared by all goroutines.
// Each result must be the goroutine's own plaintext and its own signer. Nothing in
// it is specific to one defect: whatever per-operation state leaks into shared
// state (a pooled scratch buffer, a package-level slice that is appended to, a
// shared hash) shows up as a round trip that fails only when run concurrently.

import (
	"bytes"
	crand "crypto/rand"
	"fmt"
	"io"
	"runtime"
	"strings"
	"sync"
	"sync/atomic"

	"github.com/keybase/saltpack"
	"github.com/keybase/saltpack/encoding/basex"
	"verifharness/internal/keys"
)

type slowReader struct {
	r   io.Reader
	max int
}

func (s *slowReader) Read(p []byte) (int, error) {
	runtime.Gosched()
	if len(p) > s.max {
		p = p[:s.max]
	}
	return s.r.Read(p)
}

type slowWriter struct{ w io.Writer }

func (s slowWriter) Write(p []byte) (int, error) {
	runtime.Gosched()
	return s.w.Write(p)
}

// drain reads r to its end through a small buffer, yielding between reads
func drain(r io.Reader, bufLen int) ([]byte, error) {
	var out []byte
	buf := make([]byte, bufLen)
	for {
		n, err := r.Read(buf)
		out = append(out, buf[:n]...)
		if err == io.EOF {
			return out, nil
		}
		if err != nil {
			return out, err
		}
		runtime.Gosched()
	}
}

func writePieces(w io.WriteCloser, pt []byte, cut int) error {
	if cut > len(pt) {
		cut = len(pt)
	}
	if _, err := w.Write(pt[:cut]); err != nil {
		return err
	}
	if _, err := w.Write(pt[cut:]); err != nil {
		return err
	}
	return w.Close()
}

type stressKeys struct {
	ring   *keys.Ring
	box    *keys.BoxSecret
	signer *keys.SigSecret
}

func stressPlaintext(g, it int) []byte {
	n := []int{0, 1, 31, 32, 33, 100, 257, 2233, 4470}[(g+it)%9] + g
	pt := make([]byte, n)
	for i := range pt {
		pt[i] = byte(g*31 + it*7 + i*13 + i>>8)
	}
	return pt
}

// one goroutine's round trips; "" = all good
func stressRoundTrips(sk stressKeys, g, it int) (res string) {
	defer func() {
		if x := recover(); x != nil {
			res = fmt.Sprintf("panic: %v", x)
		}
	}()
	pt := stressPlaintext(g, it)
	ver := saltpack.Version1()
	if (g+it)%2 == 1 {
		ver = saltpack.Version2()
	}
	myKey := keys.Hex(sk.signer.PublicBytes())
	same := func(what string, got []byte, err error) string {
		if err != nil {
			return fmt.Sprintf("%s of a genuine %d-byte message failed: %v", what, len(pt), err)
		}
		if !bytes.Equal(got, pt) {
			return fmt.Sprintf("%s of a genuine %d-byte message returned other bytes (%d)", what, len(pt), len(got))
		}
		return ""
	}
	// 1. attached signature, streaming both ways
	var b1 bytes.Buffer
	ws, err := saltpack.NewSignStream(ver, slowWriter{&b1}, sk.signer)
	if err != nil {
		return "NewSignStream: " + err.Error()
	}
	if err := writePieces(ws, pt, 17); err != nil {
		return "sign stream: " + err.Error()
	}
	who, vr, err := saltpack.NewVerifyStream(saltpack.CheckKnownMajorVersion, &slowReader{bytes.NewReader(b1.Bytes()), 64}, sk.ring)
	if err != nil {
		return fmt.Sprintf("NewVerifyStream of a genuine %d-byte message: %v", len(pt), err)
	}
	got, err := drain(vr, 29)
	if f := same("attached verify (stream)", got, err); f != "" {
		return f
	}
	if keys.Hex(who.ToKID()) != myKey {
		return "attached verify named another signer"
	}
	// 2. detached signature, all-at-once signer and reader-form verifier
	sig, err := saltpack.SignDetached(ver, pt, sk.signer)
	if err != nil {
		return "SignDetached: " + err.Error()
	}
	if _, err := saltpack.VerifyDetachedReader(saltpack.CheckKnownMajorVersion, &slowReader{bytes.NewReader(pt), 50}, sig, sk.ring); err != nil {
		return fmt.Sprintf("detached signature of a genuine %d-byte message does not verify: %v", len(pt), err)
	}
	if len(pt) > 0 {
		other := append([]byte(nil), pt...)
		other[len(other)/2] ^= 1
		if _, err := saltpack.VerifyDetached(saltpack.CheckKnownMajorVersion, other, sig, sk.ring); err == nil {
			return "a detached signature verified against another message"
		}
	}
	// 3. armored detached signature
	brand := fmt.Sprintf("G%dX", g) // every goroutine its own brand: frames are built from shared constants
	asig, err := saltpack.SignDetachedArmor62(ver, pt, sk.signer, brand)
	if err != nil {
		return "SignDetachedArmor62: " + err.Error()
	}
	if _, gotBrand, err := saltpack.Dearmor62VerifyDetached(saltpack.CheckKnownMajorVersion, pt, asig, sk.ring); err != nil {
		return fmt.Sprintf("armored detached signature of a genuine %d-byte message (brand %q) does not verify: %v — text starts %q", len(pt), brand, err, trunc(asig, 60))
	} else if gotBrand != brand {
		return fmt.Sprintf("dearmoring returned brand %q for a text armored under brand %q", gotBrand, brand)
	}
	if want := saltpack.MakeArmorHeader(saltpack.MessageTypeDetachedSignature, brand); !strings.HasPrefix(asig, want+".") {
		return fmt.Sprintf("armored text under brand %q does not start with its own header %q: %q", brand, want, trunc(asig, 70))
	}
	// 4. armored encryption, streaming both ways, tiny reads
	var b4 bytes.Buffer
	we, err := saltpack.NewEncryptArmor62Stream(ver, slowWriter{&b4}, sk.box, []saltpack.BoxPublicKey{sk.box.GetPublicKey()}, brand)
	if err != nil {
		return "NewEncryptArmor62Stream: " + err.Error()
	}
	if err := writePieces(we, pt, 100); err != nil {
		return "encrypt stream: " + err.Error()
	}
	_, dr, gotBrand4, err := saltpack.NewDearmor62DecryptStream(saltpack.CheckKnownMajorVersion, &slowReader{bytes.NewReader(b4.Bytes()), 7}, sk.ring)
	if err != nil {
		return fmt.Sprintf("NewDearmor62DecryptStream of a genuine %d-byte message: %v", len(pt), err)
	}
	if gotBrand4 != brand {
		return fmt.Sprintf("dearmoring an encrypted message armored under brand %q returned brand %q", brand, gotBrand4)
	}
	got, err = drain(dr, 11)
	if f := same("armored decryption (stream)", got, err); f != "" {
		return f
	}
	// 5. signcryption
	var b5 bytes.Buffer
	wc, err := saltpack.NewSigncryptSealStream(slowWriter{&b5}, sk.ring, sk.signer, []saltpack.BoxPublicKey{sk.box.GetPublicKey()}, nil)
	if err != nil {
		return "NewSigncryptSealStream: " + err.Error()
	}
	if err := writePieces(wc, pt, 5); err != nil {
		return "signcrypt stream: " + err.Error()
	}
	who2, sr, err := saltpack.NewSigncryptOpenStream(&slowReader{bytes.NewReader(b5.Bytes()), 33}, sk.ring, nil)
	if err != nil {
		return fmt.Sprintf("NewSigncryptOpenStream of a genuine %d-byte message: %v", len(pt), err)
	}
	got, err = drain(sr, 64)
	if f := same("signcryption open (stream)", got, err); f != "" {
		return f
	}
	if who2 == nil || keys.Hex(who2.ToKID()) != myKey {
		return "signcryption open named another sender"
	}
	// 6. the bare armor and BaseX streams, 3-byte reads
	var b6 bytes.Buffer
	wa, err := saltpack.NewArmor62EncoderStream(slowWriter{&b6}, saltpack.MessageTypeEncryption, brand)
	if err != nil {
		return "NewArmor62EncoderStream: " + err.Error()
	}
	if err := writePieces(wa, pt, 45); err != nil {
		return "armor stream: " + err.Error()
	}
	ar, _, err := saltpack.NewArmor62DecoderStream(&slowReader{bytes.NewReader(b6.Bytes()), 40}, nil, nil)
	if err != nil {
		return "NewArmor62DecoderStream: " + err.Error()
	}
	got, err = drain(ar, 3)
	if f := same("dearmoring (stream, 3-byte reads)", got, err); f != "" {
		return f
	}
	for _, enc := range []*basex.Encoding{basex.Base62StdEncoding, basex.Base58StdEncoding} {
		var b7 bytes.Buffer
		wx := basex.NewEncoder(enc, slowWriter{&b7})
		if err := writePieces(wx, pt, 9); err != nil {
			return "basex encoder: " + err.Error()
		}
		got, err = drain(basex.NewDecoder(enc, &slowReader{bytes.NewReader(b7.Bytes()), 13}), 3)
		if f := same("BaseX decoding (stream, 3-byte reads)", got, err); f != "" {
			return f
		}
	}
	return ""
}

// stressCheapCalls: the cheap, allocation-light entry points (frame construction and checking, classification,
// BaseX and armor of small payloads) in tight loops, every goroutine with ITS OWN brand / payload, each answer
// compared with the one computed alone beforehand. Windows of a few instructions (a shared backing array written by
// append, a package-level scratch value) only open under this kind of pressure.
func stressCheapCalls(quick bool) []string {
	G, iters := 16, 4000
	if !quick {
		iters = 40000
	}
	type expect struct {
		brand, hdr, ftr, armor, b62 string
		payload                   []byte
		typ                       saltpack.MessageType
	}
	ex := make([]expect, G)
	for g := range ex {
		e := expect{brand: fmt.Sprintf("BRAND%dx", g), typ: []saltpack.MessageType{saltpack.MessageTypeEncryption, saltpack.MessageTypeAttachedSignature, saltpack.MessageTypeDetachedSignature}[g%3]}
		e.payload = bytes.Repeat([]byte{byte(g + 1), byte(3 * g)}, 20+g)
		e.hdr, e.ftr = saltpack.MakeArmorHeader(e.typ, e.brand), saltpack.MakeArmorFooter(e.typ, e.brand)
		e.armor, _ = saltpack.Armor62Seal(e.payload, e.typ, e.brand)
		e.b62 = basex.Base62StdEncoding.EncodeToString(e.payload)
		ex[g] = e
	}
	var out []string
	var mu sync.Mutex
	for _, procs := range []int{2, runtime.NumCPU()} {
		old := runtime.GOMAXPROCS(procs)
		start := make(chan struct{})
		var wg sync.WaitGroup
		for g := 0; g < G; g++ {
			wg.Add(1)
			go func(g int) {
				defer wg.Done()
				e := ex[g]
				fail := func(f string, a ...interface{}) {
					mu.Lock()
					out = append(out, fmt.Sprintf("GOMAXPROCS=%d, %d goroutines in tight loops, goroutine %d: ", procs, G, g)+fmt.Sprintf(f, a...)+" (alone the call gives the expected answer)")
					mu.Unlock()
				}
				defer func() {
					if x := recover(); x != nil {
						fail("panic: %v", x)
					}
				}()
				<-start
				for it := 0; it < iters; it++ {
					if h := saltpack.MakeArmorHeader(e.typ, e.brand); h != e.hdr {
						fail("MakeArmorHeader(type %d, brand %q) = %q", int(e.typ), e.brand, h)
						return
					}
					if f := saltpack.MakeArmorFooter(e.typ, e.brand); f != e.ftr {
						fail("MakeArmorFooter(type %d, brand %q) = %q", int(e.typ), e.brand, f)
						return
					}
					if b, err := saltpack.CheckArmor62(e.hdr, e.ftr, e.typ); err != nil || b != e.brand {
						fail("CheckArmor62 of its own frame gives (%q, %v)", b, err)
						return
					}
					if it%8 == 0 {
						if a, err := saltpack.Armor62Seal(e.payload, e.typ, e.brand); err != nil || a != e.armor {
							fail("Armor62Seal under brand %q gives another text: %q", e.brand, trunc(a, 80))
							return
						}
						if body, b, _, _, err := saltpack.Armor62OpenWithValidation(e.armor, nil, nil); err != nil || !bytes.Equal(body, e.payload) || b != "" && b != e.brand {
							fail("Armor62OpenWithValidation of its own text gives (%d bytes, brand %q, %v)", len(body), b, err)
							return
						}
						if s := basex.Base62StdEncoding.EncodeToString(e.payload); s != e.b62 {
							fail("base62 encoding differs")
							return
						}
						if d, err := basex.Base62StdEncoding.DecodeString(e.b62); err != nil || !bytes.Equal(d, e.payload) {
							fail("base62 decoding differs (%v)", err)
							return
						}
						if _, _, _, err := saltpack.IsSaltpackArmoredPrefix(e.hdr[:len(e.hdr)/2]); err != saltpack.ErrShortSliceOrBuffer {
							fail("IsSaltpackArmoredPrefix on half of its own header: %v", err)
							return
						}
					}
				}
			}(g)
		}
		close(start)
		wg.Wait()
		runtime.GOMAXPROCS(old)
	}
	return out
}

// stressConcurrent returns descriptions of round trips that fail only when run concurrently.
var stressDone int64 // round trips completed concurrently (evidence)

func stressConcurrent(quick bool) []string {
	creator := &keys.EphCreator{Read: func(b []byte) error { _, err := io.ReadFull(crand.Reader, b); return err }}
	G, iters := 12, 3
	if !quick {
		G, iters = 24, 10
	}
	// every goroutine has its own signer (so a signature over another goroutine's input cannot verify) and box
	// key; the keyring, encodings and armor parameters are shared by all
	ring := &keys.Ring{LS: "std", LP: "std", IE: "std", LSig: "std", Creator: creator}
	ks := make([]stressKeys, G)
	for g := range ks {
		seed := bytes.Repeat([]byte{byte(g + 1)}, 32)
		b := keys.NewBoxSecret(seed, false, nil, creator)
		ring.Secrets = append(ring.Secrets, b)
		ks[g] = stressKeys{ring: ring, box: b, signer: keys.NewSigSecret(seed, nil)}
	}
	// solo pass first: a failure here is not a concurrency matter (other checks own it) — skip the stress then
	for g := 0; g < G; g++ {
		if f := stressRoundTrips(ks[g], g, 0); f != "" {
			return nil
		}
	}
	cheap := stressCheapCalls(quick)
	keys.Yield = func() { runtime.Gosched(); runtime.Gosched() }
	defer func() { keys.Yield = nil }()
	var out []string
	var mu sync.Mutex
	for _, procs := range []int{1, 4, runtime.NumCPU()} {
		old := runtime.GOMAXPROCS(procs)
		start := make(chan struct{})
		var wg sync.WaitGroup
		for g := 0; g < G; g++ {
			wg.Add(1)
			go func(g int) {
				defer wg.Done()
				<-start
				for it := 0; it < iters; it++ {
					if f := stressRoundTrips(ks[g], g, it); f != "" {
						mu.Lock()
						out = append(out, fmt.Sprintf("GOMAXPROCS=%d, %d goroutines started together, goroutine %d iteration %d: %s (the same round trip succeeds alone)", procs, G, g, it, f))
						mu.Unlock()
						return
					}
					atomic.AddInt64(&stressDone, 1)
				}
			}(g)
		}
		close(start)
		wg.Wait()
		runtime.GOMAXPROCS(old)
	}
	return append(out, cheap...)
}
