package main

// Inventories and the effect summary (C12, C15, C20), from the typed AST and
// SSA of /repo's current working tree.

import (
	"fmt"
	"go/ast"
	"go/token"
	"go/types"
	"path/filepath"
	"sort"
	"strings"

	"golang.org/x/tools/go/packages"
	"golang.org/x/tools/go/ssa"
	"golang.org/x/tools/go/ssa/ssautil"
)

func leanStrings(v []string) string {
	q := make([]string, len(v))
	for i, s := range v {
		q[i] = fmt.Sprintf("%q", s)
	}
	return "[" + strings.Join(q, ", ") + "]"
}

func isTestFile(fset *token.FileSet, pos token.Pos) bool {
	return strings.HasSuffix(fset.Position(pos).Filename, "_test.go")
}

func funcName(fd *ast.FuncDecl) string {
	name := fd.Name.Name
	if fd.Recv != nil && len(fd.Recv.List) > 0 {
		t := fd.Recv.List[0].Type
		if s, ok := t.(*ast.StarExpr); ok {
			t = s.X
		}
		if id, ok := t.(*ast.Ident); ok {
			name = id.Name + "." + name
		}
	}
	return name
}

// rootGlobal follows FieldAddr/IndexAddr/Field/Index/UnOp(load)/ChangeType chains
// to a package-level variable, if any.
func rootGlobal(v ssa.Value, depth int) *ssa.Global {
	if depth > 12 {
		return nil
	}
	switch x := v.(type) {
	case *ssa.Global:
		return x
	case *ssa.FieldAddr:
		return rootGlobal(x.X, depth+1)
	case *ssa.IndexAddr:
		return rootGlobal(x.X, depth+1)
	case *ssa.Field:
		return rootGlobal(x.X, depth+1)
	case *ssa.Index:
		return rootGlobal(x.X, depth+1)
	case *ssa.UnOp:
		if x.Op == token.MUL {
			return rootGlobal(x.X, depth+1)
		}
	case *ssa.ChangeType:
		return rootGlobal(x.X, depth+1)
	case *ssa.Slice:
		return rootGlobal(x.X, depth+1)
	case *ssa.Phi:
		for _, e := range x.Edges {
			if g := rootGlobal(e, depth+1); g != nil {
				return g
			}
		}
	}
	return nil
}

// derivesFromEncodingParam: the value is loaded (through field/index chains) from
// a parameter or receiver of type *basex.Encoding — the shared encodings.
// sharedPointee: the value is a pointer to (or into) an object of a type whose instances are shared between
// operations — the package-level encodings and the repository's own keyring / key objects — WHEREVER the pointer
// came from (a parameter, a field that holds it such as encoder.enc or armorParams.Encoding, a call result).
func sharedPointee(t types.Type) bool {
	p, ok := t.Underlying().(*types.Pointer)
	if !ok {
		return false
	}
	n, ok := p.Elem().(*types.Named) // a pointer to the object itself, not a pointer to a field that holds such a pointer
	if !ok || n.Obj().Pkg() == nil {
		return false
	}
	q := n.Obj().Pkg().Path() + "." + n.Obj().Name()
	return q == "github.com/keybase/saltpack/encoding/basex.Encoding" || q == "github.com/keybase/saltpack/basic.Keyring"
}

func derivesFromEncodingParam(v ssa.Value, depth int) bool {
	if depth > 24 {
		return true // too deep to decide: report rather than stay silent
	}
	if sharedPointee(v.Type()) {
		return true
	}
	switch x := v.(type) {
	case *ssa.Parameter:
		return strings.HasSuffix(x.Type().String(), "basex.Encoding")
	case *ssa.FieldAddr:
		return derivesFromEncodingParam(x.X, depth+1)
	case *ssa.IndexAddr:
		return derivesFromEncodingParam(x.X, depth+1)
	case *ssa.Field:
		return derivesFromEncodingParam(x.X, depth+1)
	case *ssa.Index:
		return derivesFromEncodingParam(x.X, depth+1)
	case *ssa.UnOp:
		if x.Op == token.MUL {
			return derivesFromEncodingParam(x.X, depth+1)
		}
	case *ssa.ChangeType:
		return derivesFromEncodingParam(x.X, depth+1)
	case *ssa.Slice:
		return derivesFromEncodingParam(x.X, depth+1)
	}
	return false
}

func genInventory(pkgs []*packages.Package) {
	var panicFuncs, globals, sharedWrites, randReads, sharedShapes, sharedHazards []string
	keyCalls := map[string]bool{}
	for _, p := range pkgs {
		sp := shortPkg(p.PkgPath)
		// package-level variables
		scope := p.Types.Scope()
		for _, n := range scope.Names() {
			if v, ok := scope.Lookup(n).(*types.Var); ok && !isTestFile(p.Fset, v.Pos()) {
				globals = append(globals, sp+"."+n)
				var hazards []string
				shape := typeShape(v.Type(), map[string]bool{}, &hazards)
				sharedShapes = append(sharedShapes, sp+"."+n+" : "+shape)
				for _, h := range hazards {
					sharedHazards = append(sharedHazards, sp+"."+n+" reaches "+h)
				}
			}
		}
		for _, f := range p.Syntax {
			if isTestFile(p.Fset, f.Pos()) {
				continue
			}
			file := filepath.Base(p.Fset.Position(f.Pos()).Filename)
			if file == "verif_export.go" {
				continue
			}
			for _, d := range f.Decls {
				fd, ok := d.(*ast.FuncDecl)
				if !ok || fd.Body == nil {
					continue
				}
				fn := sp + "." + funcName(fd)
				hasPanic := false
				ast.Inspect(fd.Body, func(n ast.Node) bool {
					if sel, ok := n.(*ast.SelectorExpr); ok {
						// reads of the process randomness source
						if id, ok := sel.X.(*ast.Ident); ok && sel.Sel.Name == "Reader" {
							if pn, ok := p.TypesInfo.Uses[id].(*types.PkgName); ok && pn.Imported().Path() == "crypto/rand" {
								randReads = append(randReads, fn)
							}
						}
					}
					call, ok := n.(*ast.CallExpr)
					if !ok {
						return true
					}
					if id, ok := call.Fun.(*ast.Ident); ok && id.Name == "panic" {
						if _, isBuiltin := p.TypesInfo.Uses[id].(*types.Builtin); isBuiltin {
							hasPanic = true
						}
					}
					if sel, ok := call.Fun.(*ast.SelectorExpr); ok {
						// calls on key objects: .Box/.Unbox/.Precompute/.Sign on interface values of key.go
						switch sel.Sel.Name {
						case "Box", "Unbox", "Precompute", "Sign":
							if tv, ok := p.TypesInfo.Types[sel.X]; ok {
								ts := tv.Type.String()
								if strings.Contains(ts, "saltpack.BoxSecretKey") || strings.Contains(ts, "saltpack.BoxPrecomputedSharedKey") || strings.Contains(ts, "saltpack.SigningSecretKey") {
									if sp == "sp" {
										keyCalls[fn+":"+sel.Sel.Name] = true
									}
								}
							}
						}
					}
					return true
				})
				if hasPanic {
					panicFuncs = append(panicFuncs, fn)
				}
			}
		}
	}
	// SSA effect summary: stores whose address is rooted in a package-level
	// variable or in a *basex.Encoding parameter; pointer-receiver calls on such values.
	prog, ssaPkgs := ssautil.AllPackages(pkgs, ssa.InstantiateGenerics)
	prog.Build()
	own := map[*ssa.Package]string{}
	for i, sp := range ssaPkgs {
		if sp != nil {
			own[sp] = shortPkg(pkgs[i].PkgPath)
		}
	}
	for fn := range ssautil.AllFunctions(prog) {
		if fn.Pkg == nil || own[fn.Pkg] == "" || fn.Synthetic != "" && !strings.HasPrefix(fn.Synthetic, "bound") {
			continue
		}
		if fn.Pos() != token.NoPos && (isTestFile(prog.Fset, fn.Pos()) || filepath.Base(prog.Fset.Position(fn.Pos()).Filename) == "verif_export.go") {
			continue
		}
		name := own[fn.Pkg] + "." + fn.RelString(fn.Pkg.Pkg)
		if fn.Name() == "init" || strings.HasSuffix(name, ".NewEncoding") || strings.HasPrefix(fn.Name(), "init#") {
			continue // construction time
		}
		if own[fn.Pkg] == "basic" && (strings.Contains(fn.Name(), "Import") || strings.Contains(fn.Name(), "Generate") || strings.HasPrefix(fn.Name(), "New") || strings.HasPrefix(fn.Name(), "generate")) {
			continue // the keyring's own mutators: building a keyring is not one of the concurrent operations
		}
		for _, b := range fn.Blocks {
			for _, ins := range b.Instrs {
				switch x := ins.(type) {
				case *ssa.Store:
					if g := rootGlobal(x.Addr, 0); g != nil && own[g.Pkg] != "" {
						sharedWrites = append(sharedWrites, fmt.Sprintf("%s stores to %s", name, g.Name()))
					} else if derivesFromEncodingParam(x.Addr, 0) {
						sharedWrites = append(sharedWrites, fmt.Sprintf("%s stores through a shared *Encoding / *Keyring", name))
					}
				case *ssa.MapUpdate:
					if g := rootGlobal(x.Map, 0); g != nil && own[g.Pkg] != "" {
						sharedWrites = append(sharedWrites, fmt.Sprintf("%s updates map %s", name, g.Name()))
					}
				case *ssa.Call:
					c := x.Call
					if c.IsInvoke() {
						// a method call through an interface value that lives in shared state (e.g. a package-level hash.Hash)
						if g := rootGlobal(c.Value, 0); g != nil && own[g.Pkg] != "" && c.Method.Name() != "Error" {
							sharedWrites = append(sharedWrites, fmt.Sprintf("%s invokes .%s on shared %s", name, c.Method.Name(), g.Name()))
						} else if derivesFromEncodingParam(c.Value, 0) {
							sharedWrites = append(sharedWrites, fmt.Sprintf("%s invokes .%s on a value of *Encoding", name, c.Method.Name()))
						}
						continue
					}
					if c.StaticCallee() == nil || c.StaticCallee().Signature.Recv() == nil || len(c.Args) == 0 {
						continue
					}
					recv := c.Args[0]
					if _, isPtr := recv.Type().Underlying().(*types.Pointer); !isPtr {
						continue
					}
					callee := c.StaticCallee()
					if callee.Pkg != nil && callee.Pkg.Pkg.Path() == "math/big" {
						if g := rootGlobal(recv, 0); g != nil && own[g.Pkg] != "" {
							sharedWrites = append(sharedWrites, fmt.Sprintf("%s calls (*big).%s on %s", name, callee.Name(), g.Name()))
						} else if derivesFromEncodingParam(recv, 0) {
							sharedWrites = append(sharedWrites, fmt.Sprintf("%s calls (*big).%s on a value of *Encoding", name, callee.Name()))
						}
					} else if callee.Pkg != nil && own[callee.Pkg] == "" {
						// any other pointer-receiver method of a foreign package (sync.Pool, sync.Mutex, bytes.Buffer, hash state …)
						// called on memory that belongs to a package-level variable or to a shared *Encoding
						if g := rootGlobal(recv, 0); g != nil && own[g.Pkg] != "" {
							sharedWrites = append(sharedWrites, fmt.Sprintf("%s calls (%s).%s on %s", name, callee.Pkg.Pkg.Path(), callee.Name(), g.Name()))
						} else if derivesFromEncodingParam(recv, 0) {
							sharedWrites = append(sharedWrites, fmt.Sprintf("%s calls (%s).%s on a value of *Encoding", name, callee.Pkg.Pkg.Path(), callee.Name()))
						}
					}
				}
			}
		}
	}
	sort.Strings(panicFuncs)
	sort.Strings(globals)
	sort.Strings(sharedWrites)
	sort.Strings(randReads)
	var kc []string
	for k := range keyCalls {
		kc = append(kc, k)
	}
	sort.Strings(kc)
	dedup := func(s []string) []string {
		var out []string
		for i, x := range s {
			if i == 0 || x != s[i-1] {
				out = append(out, x)
			}
		}
		return out
	}
	var sb strings.Builder
	sb.WriteString("/- GENERATED by harness/cmd/extract (typed AST + SSA of /repo) — do not edit. -/\nnamespace Saltpack.Gen\n\n")
	fmt.Fprintf(&sb, "/-- non-test functions that contain an explicit `panic(` -/\ndef panicFunctions : List String := %s\n\n", leanStrings(dedup(panicFuncs)))
	fmt.Fprintf(&sb, "/-- package-level variables of saltpack, basex, basic -/\ndef globals : List String := %s\n\n", leanStrings(dedup(globals)))
	gb := make([]string, 0)
	for _, g := range dedup(globals) {
		gb = append(gb, leanBytes([]byte(g)))
	}
	fmt.Fprintf(&sb, "/-- the same names as byte lists (kernel-reducible prefix tests) -/\ndef globalsBytes : List (List UInt8) := [%s]\n\n", strings.Join(gb, ", "))
	fmt.Fprintf(&sb, "/-- effect summary: stores / map updates / receiver-mutating math/big calls whose target is rooted in a package-level variable or a *basex.Encoding, outside init and NewEncoding -/\ndef sharedWrites : List String := %s\n\n", leanStrings(dedup(sharedWrites)))
	sort.Strings(sharedShapes)
	sort.Strings(sharedHazards)
	fmt.Fprintf(&sb, "/-- the memory reachable from every package-level variable, as a type shape: own struct types expanded field by field, foreign named types by name -/\ndef sharedShapes : List String := %s\n\n", leanStrings(sharedShapes))
	fmt.Fprintf(&sb, "/-- package-level variables from which a type with interior mutability is reachable (sync.*, sync/atomic.*, channels, hash/buffer state) -/\ndef sharedHazards : List String := %s\n\n", leanStrings(dedup(sharedHazards)))
	fmt.Fprintf(&sb, "/-- functions that read crypto/rand.Reader -/\ndef randReaders : List String := %s\n\n", leanStrings(dedup(randReads)))
	fmt.Fprintf(&sb, "/-- call sites on application key objects: function:method -/\ndef keyCallSites : List String := %s\n\n", leanStrings(kc))
	sb.WriteString("end Saltpack.Gen\n")
	writeIfChanged("Inventory.lean", sb.String())
}

// typeShape renders the memory reachable from a value of type t: struct types of
// the repository's own packages are expanded field by field (so a new field —
// a cache, a pool, a lock — changes the shape), foreign named types are printed by
// name; types with interior mutability are recorded as hazards.
func typeShape(t types.Type, seen map[string]bool, hazards *[]string) string {
	switch x := t.(type) {
	case *types.Named:
		q := x.String()
		pkg := ""
		if x.Obj().Pkg() != nil {
			pkg = x.Obj().Pkg().Path()
		}
		switch {
		case pkg == "sync" || pkg == "sync/atomic" || pkg == "hash" || pkg == "bytes" && x.Obj().Name() == "Buffer" || pkg == "math/rand" || pkg == "bufio":
			*hazards = append(*hazards, q)
			return q
		case strings.HasPrefix(pkg, "github.com/keybase/saltpack"):
			if seen[q] {
				return shortType(q)
			}
			seen[q] = true
			return shortType(q) + "=" + typeShape(x.Underlying(), seen, hazards)
		default:
			if _, isIface := x.Underlying().(*types.Interface); isIface && q != "error" {
				return q + "(interface)"
			}
			return q
		}
	case *types.Pointer:
		return "*" + typeShape(x.Elem(), seen, hazards)
	case *types.Slice:
		return "[]" + typeShape(x.Elem(), seen, hazards)
	case *types.Array:
		return fmt.Sprintf("[%d]", x.Len()) + typeShape(x.Elem(), seen, hazards)
	case *types.Map:
		return "map[" + typeShape(x.Key(), seen, hazards) + "]" + typeShape(x.Elem(), seen, hazards)
	case *types.Chan:
		*hazards = append(*hazards, "chan "+x.Elem().String())
		return "chan " + typeShape(x.Elem(), seen, hazards)
	case *types.Struct:
		var fs []string
		for i := 0; i < x.NumFields(); i++ {
			fs = append(fs, x.Field(i).Name()+" "+typeShape(x.Field(i).Type(), seen, hazards))
		}
		return "struct{" + strings.Join(fs, "; ") + "}"
	case *types.Signature:
		return "func"
	case *types.Interface:
		return "interface"
	}
	return t.String()
}

func shortType(q string) string {
	return strings.Replace(strings.Replace(q, "github.com/keybase/saltpack/encoding/", "", 1), "github.com/keybase/saltpack", "sp", 1)
}
