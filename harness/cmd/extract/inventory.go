package main

import (
	"golang.org/x/tools/go/packages"
)

func genInventory(pkgs []*packages.Package) {
	_ = pkgs
}
