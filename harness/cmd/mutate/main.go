// Command mutate enumerates and applies small syntactic mutations of the
// library's non-test Go sources (go/ast): relational and arithmetic operator
// swaps, logical operator swaps, integer constants ±1, negated conditions,
// removed statements (assignments to error variables excluded), `break`/`continue`/early returns
// removed.  Used by tools/mutrun.py to measure what the pinned test suite and
// the property checks notice.  `-list` prints the sites, `-apply N` rewrites the
// N-th site in place (run it on a scratch copy of the repository).
package main

import (
	"bytes"
	"flag"
	"fmt"
	"go/ast"
	"go/format"
	"go/parser"
	"go/token"
	"os"
	"path/filepath"
	"sort"
	"strings"
)

type site struct {
	file string
	pos  token.Position
	kind string
	do   func()
}

var swaps = map[token.Token][]token.Token{
	token.LSS: {token.LEQ, token.GEQ}, token.LEQ: {token.LSS, token.GTR}, token.GTR: {token.GEQ, token.LEQ}, token.GEQ: {token.GTR, token.LSS},
	token.EQL: {token.NEQ}, token.NEQ: {token.EQL},
	token.ADD: {token.SUB}, token.SUB: {token.ADD}, token.MUL: {token.QUO}, token.REM: {token.QUO},
	token.LAND: {token.LOR}, token.LOR: {token.LAND},
	token.SHL: {token.SHR}, token.SHR: {token.SHL}, token.AND: {token.OR}, token.OR: {token.AND}, token.XOR: {token.AND},
}

func main() {
	repo := flag.String("repo", "/repo", "repository (scratch copy when applying)")
	list := flag.Bool("list", false, "list mutation sites")
	apply := flag.Int("apply", -1, "apply the N-th mutation in place")
	flag.Parse()
	var files []string
	for _, d := range []string{".", "encoding/basex", "basic"} {
		ms, _ := filepath.Glob(filepath.Join(*repo, d, "*.go"))
		for _, m := range ms {
			b := filepath.Base(m)
			if strings.HasSuffix(b, "_test.go") || b == "verif_export.go" || b == "errors.go" || b == "doc.go" || strings.Contains(b, "_i386") || strings.Contains(b, "tools") {
				continue
			}
			files = append(files, m)
		}
	}
	sort.Strings(files)
	fset := token.NewFileSet()
	var sites []site
	parsed := map[string]*ast.File{}
	for _, f := range files {
		af, err := parser.ParseFile(fset, f, nil, parser.ParseComments)
		if err != nil {
			fmt.Fprintln(os.Stderr, err)
			os.Exit(2)
		}
		parsed[f] = af
		f := f
		add := func(p token.Pos, kind string, do func()) {
			sites = append(sites, site{f, fset.Position(p), kind, do})
		}
		ast.Inspect(af, func(n ast.Node) bool {
			switch x := n.(type) {
			case *ast.FuncDecl:
				// skip String()/Error() methods and panics' message builders
				if x.Name.Name == "String" || x.Name.Name == "Error" {
					return false
				}
			case *ast.BinaryExpr:
				for _, to := range swaps[x.Op] {
					to, from := to, x.Op
					// string concatenation is not arithmetic
					if from == token.ADD {
						if bl, ok := x.X.(*ast.BasicLit); ok && bl.Kind == token.STRING {
							continue
						}
						if bl, ok := x.Y.(*ast.BasicLit); ok && bl.Kind == token.STRING {
							continue
						}
					}
					add(x.OpPos, fmt.Sprintf("op %s -> %s", from, to), func() { x.Op = to })
				}
			case *ast.BasicLit:
				if x.Kind == token.INT && !strings.HasPrefix(x.Value, "0x") {
						old := x.Value
					var v int
					if _, err := fmt.Sscanf(old, "%d", &v); err == nil && v < 1<<30 {
						add(x.Pos(), fmt.Sprintf("const %s -> %d", old, v+1), func() { x.Value = fmt.Sprint(v + 1) })
						if v > 0 {
							add(x.Pos(), fmt.Sprintf("const %s -> %d", old, v-1), func() { x.Value = fmt.Sprint(v - 1) })
						}
					}
				}
			case *ast.IfStmt:
				add(x.Cond.Pos(), "negate condition", func() { x.Cond = &ast.UnaryExpr{Op: token.NOT, X: &ast.ParenExpr{X: x.Cond}} })
			case *ast.BlockStmt:
				for i, st := range x.List {
					i := i
					switch s := st.(type) {
					case *ast.ExprStmt:
						if c, ok := s.X.(*ast.CallExpr); ok {
							if id, ok := c.Fun.(*ast.Ident); ok && id.Name == "panic" {
								continue
							}
							add(st.Pos(), "remove call statement", func() { x.List[i] = &ast.EmptyStmt{} })
						}
					case *ast.IncDecStmt:
						add(st.Pos(), "remove inc/dec", func() { x.List[i] = &ast.EmptyStmt{} })
					case *ast.BranchStmt:
						if s.Tok == token.BREAK || s.Tok == token.CONTINUE {
							add(st.Pos(), "remove "+s.Tok.String(), func() { x.List[i] = &ast.EmptyStmt{} })
						}
					case *ast.AssignStmt:
						if s.Tok == token.ASSIGN && len(s.Lhs) == 1 {
							add(st.Pos(), "remove assignment", func() { x.List[i] = &ast.EmptyStmt{} })
						}
						if s.Tok == token.ADD_ASSIGN {
							s := s
							add(st.Pos(), "+= -> -=", func() { s.Tok = token.SUB_ASSIGN })
						}
					}
				}
			case *ast.Ident:
				if x.Name == "true" || x.Name == "false" {
						old := x.Name
					add(x.Pos(), old+" flipped", func() {
						if old == "true" {
							x.Name = "false"
						} else {
							x.Name = "true"
						}
					})
				}
			}
			return true
		})
	}
	if *list {
		for i, s := range sites {
			rel, _ := filepath.Rel(*repo, s.file)
			fmt.Printf("%d\t%s:%d:%d\t%s\n", i, rel, s.pos.Line, s.pos.Column, s.kind)
		}
		return
	}
	if *apply < 0 || *apply >= len(sites) {
		fmt.Fprintln(os.Stderr, "no such site")
		os.Exit(2)
	}
	s := sites[*apply]
	s.do()
	var buf bytes.Buffer
	if err := format.Node(&buf, fset, parsed[s.file]); err != nil {
		fmt.Fprintln(os.Stderr, err)
		os.Exit(2)
	}
	if err := os.WriteFile(s.file, buf.Bytes(), 0644); err != nil {
		fmt.Fprintln(os.Stderr, err)
		os.Exit(2)
	}
	rel, _ := filepath.Rel(*repo, s.file)
	fmt.Printf("%s:%d:%d %s\n", rel, s.pos.Line, s.pos.Column, s.kind)
}
