// govec prints deterministic test vectors for the Lean crypto primitives.
// Line format:  op arg arg ... => result
// where every arg/result is lowercase hex, "-" denotes the empty byte string,
// and the result "fail" denotes a rejected secretbox.Open. Booleans are 01/00.
package main

import (
	"bufio"
	"crypto/hmac"
	"crypto/sha512"
	"encoding/hex"
	"fmt"
	"math/big"
	"math/rand"
	"os"

	"golang.org/x/crypto/curve25519"
	"golang.org/x/crypto/ed25519"
	"golang.org/x/crypto/nacl/box"
	"golang.org/x/crypto/nacl/secretbox"
)

var rng = rand.New(rand.NewSource(0x5a17bac4))
var out = bufio.NewWriterSize(os.Stdout, 1<<20)

func rnd(n int) []byte {
	b := make([]byte, n)
	rng.Read(b)
	return b
}

func hx(b []byte) string {
	if len(b) == 0 {
		return "-"
	}
	return hex.EncodeToString(b)
}

func emit(op string, res string, args ...[]byte) {
	fmt.Fprint(out, op)
	for _, a := range args {
		fmt.Fprint(out, " ", hx(a))
	}
	fmt.Fprintln(out, " =>", res)
}

func bstr(b bool) string {
	if b {
		return "01"
	}
	return "00"
}

func flip(b []byte, bit int) []byte {
	c := append([]byte{}, b...)
	c[bit/8] ^= 1 << (bit % 8)
	return c
}

func a32(b []byte) *[32]byte { return (*[32]byte)(b) }
func a24(b []byte) *[24]byte { return (*[24]byte)(b) }

func doSha(m []byte) { h := sha512.Sum512(m); emit("sha512", hx(h[:]), m) }

func doHmac(k, m []byte) {
	h := hmac.New(sha512.New, k)
	h.Write(m)
	emit("hmac", hx(h.Sum(nil)), k, m)
}

func doOpen(k, n, b []byte) {
	m, ok := secretbox.Open(nil, b, a24(n), a32(k))
	if ok {
		emit("open", hx(m), k, n, b)
	} else {
		emit("open", "fail", k, n, b)
	}
}

func doDH(s, p []byte) {
	var dst [32]byte
	curve25519.ScalarMult(&dst, a32(s), a32(p))
	emit("x25519", hx(dst[:]), s, p)
	var sh [32]byte
	box.Precompute(&sh, a32(p), a32(s))
	emit("precompute", hx(sh[:]), s, p)
}

// verify mirrors the totalised API: Go's ed25519.Verify panics on a wrong
// public-key length, which callers (saltpack) rule out beforehand -> false.
func doVerify(pk, msg, sig []byte) {
	ok := false
	if len(pk) == ed25519.PublicKeySize {
		ok = ed25519.Verify(ed25519.PublicKey(pk), msg, sig)
	}
	emit("verify", bstr(ok), pk, msg, sig)
}

func main() {
	defer out.Flush()
	lens := []int{0, 1, 111, 112, 113, 127, 128, 129, 255, 256, 1000, 1 << 20}
	for _, l := range lens {
		doSha(rnd(l))
	}
	for i := 0; i < 20; i++ {
		doSha(rnd(rng.Intn(600)))
	}
	for _, kl := range []int{0, 32, 128, 129, 200} {
		for _, ml := range []int{0, 1, 111, 112, 128, 300} {
			doHmac(rnd(kl), rnd(ml))
		}
	}

	// secretbox
	for _, l := range []int{0, 1, 15, 16, 17, 31, 32, 33, 63, 64, 65, 127, 128, 129, 1000, 1 << 20} {
		k, n, m := rnd(32), rnd(24), rnd(l)
		b := secretbox.Seal(nil, m, a24(n), a32(k))
		emit("seal", hx(b), k, n, m)
		doOpen(k, n, b)
		if l <= 1000 {
			doOpen(k, n, flip(b, rng.Intn(128)))
			if l > 0 {
				doOpen(k, n, flip(b, 128+rng.Intn(8*l)))
			}
			doOpen(k, n, b[:rng.Intn(16)])
			doOpen(k, n, b[:len(b)-1])
			doOpen(flip(k, rng.Intn(256)), n, b)
			doOpen(k, flip(n, rng.Intn(192)), b)
		}
	}
	// extreme keys / nonces (exercise carries in poly1305 and the counter words)
	ff := func(n int) []byte {
		b := make([]byte, n)
		for i := range b {
			b[i] = 0xff
		}
		return b
	}
	for _, l := range []int{0, 16, 48, 200} {
		for _, kn := range [][2][]byte{{ff(32), ff(24)}, {make([]byte, 32), make([]byte, 24)}, {ff(32), make([]byte, 24)}} {
			for _, m := range [][]byte{ff(l), make([]byte, l)} {
				b := secretbox.Seal(nil, m, a24(kn[1]), a32(kn[0]))
				emit("seal", hx(b), kn[0], kn[1], m)
				doOpen(kn[0], kn[1], b)
			}
		}
	}

	// curve25519
	special := [][]byte{
		make([]byte, 32), // all-zero point (low order)
		ff(32),
		append([]byte{1}, make([]byte, 31)...), // low order point u=1
		append([]byte{9}, make([]byte, 31)...),
		// p-1, p, p+1 (non-canonical) little-endian
		append(append([]byte{0xec}, ff(30)...), 0x7f),
		append(append([]byte{0xed}, ff(30)...), 0x7f),
		append(append([]byte{0xee}, ff(30)...), 0x7f),
		append(append([]byte{0xed}, ff(30)...), 0xff),
		// order-8 point
		mustHex("e0eb7a7c3b41b8ae1656e3faf19fc46ada098deb9c32b1fd866205165f49b800"),
	}
	for i := 0; i < 24; i++ {
		s := rnd(32)
		if i%3 == 1 {
			s[31] |= 0xc0
			s[0] |= 7
		}
		var pk [32]byte
		curve25519.ScalarBaseMult(&pk, a32(s))
		emit("x25519base", hx(pk[:]), s)
		p := rnd(32)
		if i%2 == 1 {
			p[31] |= 0x80
		}
		doDH(s, p)
		s2 := rnd(32)
		var pk2 [32]byte
		curve25519.ScalarBaseMult(&pk2, a32(s2))
		doDH(s, pk2[:])
	}
	for _, p := range special {
		doDH(rnd(32), p)
		doDH(ff(32), p)
		doDH(make([]byte, 32), p)
	}
	for _, s := range [][]byte{ff(32), make([]byte, 32)} {
		var pk [32]byte
		curve25519.ScalarBaseMult(&pk, a32(s))
		emit("x25519base", hx(pk[:]), s)
	}

	// ed25519
	L, _ := new(big.Int).SetString("7237005577332262213973186563042994240857116359379907606001950938285454250989", 10)
	for i := 0; i < 16; i++ {
		seed := rnd(32)
		switch i {
		case 14:
			seed = ff(32)
		case 15:
			seed = make([]byte, 32)
		}
		priv := ed25519.NewKeyFromSeed(seed)
		pk := []byte(priv.Public().(ed25519.PublicKey))
		emit("edpub", hx(pk), seed)
		ml := []int{0, 1, 31, 32, 64, 100, 111, 112, 200, 1000}[i%10]
		msg := rnd(ml)
		sig := ed25519.Sign(priv, msg)
		emit("edsign", hx(sig), seed, msg)
		doVerify(pk, msg, sig)
		if ml > 0 {
			doVerify(pk, flip(msg, rng.Intn(8*ml)), sig)
		}
		doVerify(pk, append(append([]byte{}, msg...), 0), sig)
		doVerify(pk, msg, flip(sig, rng.Intn(256)))       // R
		doVerify(pk, msg, flip(sig, 255))                 // R sign bit
		doVerify(pk, msg, flip(sig, 256+rng.Intn(253)))   // S
		doVerify(pk, msg, flip(sig, 256+253+rng.Intn(3))) // S top bits
		doVerify(flip(pk, rng.Intn(256)), msg, sig)
		doVerify(flip(pk, 255), msg, sig)
		// S + L: non-canonical scalar, must be rejected
		s := new(big.Int).SetBytes(rev(sig[32:]))
		s.Add(s, L)
		sb := rev(s.FillBytes(make([]byte, 32)))
		doVerify(pk, msg, append(append([]byte{}, sig[:32]...), sb...))
		// wrong sizes
		doVerify(pk[:31], msg, sig)
		doVerify(append(append([]byte{}, pk...), 0), msg, sig)
		doVerify(nil, msg, sig)
		doVerify(pk, msg, sig[:63])
		doVerify(pk, msg, append(append([]byte{}, sig...), 0))
		doVerify(pk, msg, nil)
		// signature by another key
		other := ed25519.NewKeyFromSeed(rnd(32))
		doVerify(pk, msg, ed25519.Sign(other, msg))
	}
	// random "public keys": about half are not on the curve
	for i := 0; i < 40; i++ {
		doVerify(rnd(32), rnd(10), rnd(64))
	}
	// small-order / non-canonical public keys with crafted signatures.
	// With A of small order and S=0, R := -[k]A; try all 8-torsion encodings so
	// some of them verify (cofactorless check, non-canonical A accepted).
	small := []string{
		"0100000000000000000000000000000000000000000000000000000000000000", // identity
		"0100000000000000000000000000000000000000000000000000000000000080", // identity, x sign bit set (non-canonical)
		"ecffffffffffffffffffffffffffffffffffffffffffffffffffffffffffff7f", // (0,-1)
		"ecffffffffffffffffffffffffffffffffffffffffffffffffffffffffffffff", // (0,-1), sign bit set
		"0000000000000000000000000000000000000000000000000000000000000000", // order 4
		"0000000000000000000000000000000000000000000000000000000000000080", // order 4
		"26e8958fc2b227b045c3f489f2ef98f0d5dfac05d3c63339b13802886d53fc05", // order 8
		"26e8958fc2b227b045c3f489f2ef98f0d5dfac05d3c63339b13802886d53fc85", // order 8
		"c7176a703d4dd84fba3c0b760d10670f2a2053fa2c39ccc64ec7fd7792ac037a", // order 8
		"c7176a703d4dd84fba3c0b760d10670f2a2053fa2c39ccc64ec7fd7792ac03fa", // order 8
		"eeffffffffffffffffffffffffffffffffffffffffffffffffffffffffffff7f", // y = p+1 = 1 non-canonical identity
		"eeffffffffffffffffffffffffffffffffffffffffffffffffffffffffffffff", // same with sign bit
		"edffffffffffffffffffffffffffffffffffffffffffffffffffffffffffff7f", // y = p = 0 non-canonical
		"edffffffffffffffffffffffffffffffffffffffffffffffffffffffffffffff",
		"0200000000000000000000000000000000000000000000000000000000000000", // y=2: not on curve?
		"efffffffffffffffffffffffffffffffffffffffffffffffffffffffffffff7f", // y = p+2
	}
	zeroS := make([]byte, 32)
	for _, a := range small {
		for _, r := range small {
			for j := 0; j < 2; j++ {
				doVerify(mustHex(a), rnd(3), append(mustHex(r), zeroS...))
			}
		}
	}
}

func rev(b []byte) []byte {
	c := make([]byte, len(b))
	for i := range b {
		c[len(b)-1-i] = b[i]
	}
	return c
}

func mustHex(s string) []byte {
	b, err := hex.DecodeString(s)
	if err != nil {
		panic(err)
	}
	return b
}
