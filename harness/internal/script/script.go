// Package script: a scripted replacement for crypto/rand.Reader, and error
// canonicalisation shared by all correspondence streams.
package script

import (
	cryptorand "crypto/rand"
	"errors"
	"fmt"
	"io"
	"strings"
	"sync"

	"github.com/keybase/saltpack"
	"github.com/keybase/saltpack/encoding/basex"
	"verifharness/internal/keys"
)

// RandMu serialises every operation that replaces crypto/rand.Reader.
var RandMu sync.Mutex

// Read is one scripted read: deliver Data (at most len(p) bytes of it are
// used; the script never over-delivers), then Err if set.
type Read struct {
	Data []byte
	Err  bool
}

var ErrScripted = errors.New("scripted randomness failure")

type Source struct {
	Reads []Read
	pos   int
}

// ErrValue is the error a scripted fault returns: ErrScripted normally; io.EOF for requests that carry the
// token re=eof (an exhausted file- or buffer-backed source: helpers such as io.Copy treat io.EOF as a normal end,
// so a sender that stops checking the byte count fails OPEN exactly there). Written only by such requests.
var ErrValue error = ErrScripted

func (s *Source) Read(p []byte) (int, error) {
	if s.pos >= len(s.Reads) {
		return 0, ErrValue
	}
	r := s.Reads[s.pos]
	s.pos++
	n := copy(p, r.Data)
	if r.Err {
		return n, ErrValue
	}
	return n, nil
}

func (s *Source) Consumed() int { return s.pos }

// Spec renders the script in the model's token syntax.
func (s *Source) Spec() string {
	if len(s.Reads) == 0 {
		return "-"
	}
	parts := make([]string, len(s.Reads))
	for i, r := range s.Reads {
		h := keys.Hex(r.Data)
		if len(r.Data) == 0 {
			h = ""
		}
		if r.Err {
			h += "!"
		}
		if h == "" {
			h = "!" // an empty read without error is never scripted
		}
		parts[i] = h
	}
	return strings.Join(parts, ",")
}

// With runs f while crypto/rand.Reader is replaced by src.
func With(src io.Reader, f func()) {
	RandMu.Lock()
	defer RandMu.Unlock()
	old := cryptorand.Reader
	cryptorand.Reader = src
	defer func() { cryptorand.Reader = old }()
	f()
}

// Class maps an error from the library to the model's error class names.
func Class(err error) string {
	if err == nil {
		return "ok"
	}
	switch err {
	case saltpack.ErrNoDecryptionKey:
		return "no-decryption-key"
	case saltpack.ErrTrailingGarbage:
		return "trailing-garbage"
	case saltpack.ErrFailedToReadHeaderBytes:
		return "failed-to-read-header"
	case saltpack.ErrPacketOverflow:
		return "packet-overflow"
	case saltpack.ErrInsufficientRandomness:
		return "insufficient-randomness"
	case saltpack.ErrBadEphemeralKey:
		return "bad-ephemeral-key"
	case saltpack.ErrBadReceivers:
		return "bad-receivers"
	case saltpack.ErrBadSenderKeySecretbox:
		return "bad-sender-secretbox"
	case saltpack.ErrBadSymmetricKey:
		return "bad-symmetric-key"
	case saltpack.ErrBadBoxKey:
		return "bad-box-key"
	case saltpack.ErrBadLookup:
		return "bad-lookup"
	case saltpack.ErrBadSignature:
		return "bad-signature"
	case saltpack.ErrDecryptionFailed:
		return "decryption-failed"
	case saltpack.ErrWrongNumberOfKeys:
		return "wrong-number-of-keys"
	case saltpack.ErrUnexpectedEmptyBlock:
		return "unexpected-empty-block"
	case saltpack.ErrShortSliceOrBuffer:
		return "short"
	case saltpack.ErrNotASaltpackMessage:
		return "not-saltpack"
	case saltpack.ErrOverflow:
		return "overflow"
	case saltpack.ErrPunctuated:
		return "punctuated"
	case io.ErrUnexpectedEOF:
		return "unexpected-eof"
	case io.EOF:
		return "eof"
	case ErrScripted, ErrIO:
		return "io-error"
	case basex.ErrInvalidEncodingLength:
		return "basex-badlen"
	case ErrResolver:
		return "resolver-error"
	}
	switch err.(type) {
	case saltpack.ErrNoSenderKey:
		return "no-sender-key"
	case saltpack.ErrBadTag:
		return "bad-tag"
	case saltpack.ErrBadCiphertext:
		return "bad-ciphertext"
	case saltpack.ErrRepeatedKey:
		return "repeated-key"
	case saltpack.ErrWrongMessageType:
		return "wrong-message-type"
	case saltpack.ErrBadVersion:
		return "bad-version"
	case saltpack.ErrBadFrame:
		return "bad-frame"
	case saltpack.ErrInvalidParameter:
		return "invalid-parameter"
	case basex.CorruptInputError:
		return "basex-corrupt"
	}
	return "decode-error"
}

var ErrIO = errors.New("injected I/O error")
var ErrResolver = errors.New("resolver failure")

// Recover runs f and turns a panic into ("panic:<value>").
func Recover(f func()) (panicked string) {
	defer func() {
		if r := recover(); r != nil {
			panicked = fmt.Sprintf("panic:%v", r)
		}
	}()
	f()
	return ""
}

// ReadCryptoRand fills b from the current crypto/rand.Reader.
func ReadCryptoRand(b []byte) error {
	_, err := io.ReadFull(cryptorand.Reader, b)
	return err
}
