// Package prng: one splitmix64 stream from which every random choice of a run
// derives, so that a disagreement replays exactly from VERIF_SEED.
package prng

type R struct{ s uint64 }

func New(seed uint64) *R { return &R{s: seed*0x9E3779B97F4A7C15 + 0x1234567} }

func (r *R) U64() uint64 {
	r.s += 0x9E3779B97F4A7C15
	z := r.s
	z = (z ^ (z >> 30)) * 0xBF58476D1CE4E5B9
	z = (z ^ (z >> 27)) * 0x94D049BB133111EB
	return z ^ (z >> 31)
}

// Fork derives an independent stream (for a worker / a case).
func (r *R) Fork() *R { return &R{s: r.U64()} }

func (r *R) Intn(n int) int {
	if n <= 0 {
		return 0
	}
	return int(r.U64() % uint64(n))
}

func (r *R) Bool() bool { return r.U64()&1 == 1 }

func (r *R) Bytes(n int) []byte {
	b := make([]byte, n)
	for i := 0; i < n; i += 8 {
		v := r.U64()
		for j := 0; j < 8 && i+j < n; j++ {
			b[i+j] = byte(v >> (8 * j))
		}
	}
	return b
}

// Pick returns one of the arguments.
func Pick[T any](r *R, xs ...T) T { return xs[r.Intn(len(xs))] }
