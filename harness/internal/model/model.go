// Package model drives the compiled Lean model (`spmodel`) through its line
// protocol: one request line in, one answer line out.
package model

import (
	"bufio"
	"fmt"
	"io"
	"os"
	"os/exec"
	"sync"
)

type Proc struct {
	cmd *exec.Cmd
	in  io.WriteCloser
	out *bufio.Reader
	mu  sync.Mutex
}

func Start(path string) (*Proc, error) {
	cmd := exec.Command(path)
	in, err := cmd.StdinPipe()
	if err != nil {
		return nil, err
	}
	out, err := cmd.StdoutPipe()
	if err != nil {
		return nil, err
	}
	cmd.Stderr = os.Stderr
	if err := cmd.Start(); err != nil {
		return nil, err
	}
	return &Proc{cmd: cmd, in: in, out: bufio.NewReaderSize(out, 1<<20)}, nil
}

// Ask sends one request line and returns the answer line (without newline).
func (p *Proc) Ask(line string) (string, error) {
	p.mu.Lock()
	defer p.mu.Unlock()
	if _, err := io.WriteString(p.in, line+"\n"); err != nil {
		return "", fmt.Errorf("model write: %w", err)
	}
	ans, err := p.out.ReadString('\n')
	if err != nil {
		return "", fmt.Errorf("model read: %w", err)
	}
	return ans[:len(ans)-1], nil
}

func (p *Proc) Close() {
	p.in.Close()
	_ = p.cmd.Wait()
}

// Pool is a fixed set of model processes handed out round-robin per worker.
type Pool struct{ procs []*Proc }

func NewPool(path string, n int) (*Pool, error) {
	pl := &Pool{}
	for i := 0; i < n; i++ {
		p, err := Start(path)
		if err != nil {
			pl.Close()
			return nil, err
		}
		pl.procs = append(pl.procs, p)
	}
	return pl, nil
}

func (pl *Pool) Get(i int) *Proc { return pl.procs[i%len(pl.procs)] }
func (pl *Pool) Size() int       { return len(pl.procs) }
func (pl *Pool) Close() {
	for _, p := range pl.procs {
		p.Close()
	}
}
