// Package keys: the key objects and keyrings the harness hands to saltpack.
// They are honest NaCl keys (same primitives as basic/key.go) that additionally
// log every call made on them (property C12) and whose keyring behaviours can
// be configured to match the model's keyring spec exactly.
package keys

import (
	"bytes"
	"crypto/ed25519"
	"encoding/hex"
	"fmt"
	"strings"
	"sync"

	"github.com/keybase/saltpack"
	"golang.org/x/crypto/curve25519"
	"golang.org/x/crypto/nacl/box"
)

// Hex encodes bytes the way the line protocol wants them.
func Hex(b []byte) string {
	if len(b) == 0 {
		return "-"
	}
	return hex.EncodeToString(b)
}

func HexList(bs [][]byte) string {
	if len(bs) == 0 {
		return "-"
	}
	s := make([]string, len(bs))
	for i, b := range bs {
		s[i] = Hex(b)
	}
	return strings.Join(s, ",")
}

// Yield is called by every key-object operation BEFORE it looks at its arguments: a
// "slow device" (hardware token, agent socket). The concurrent stress of C20 sets it to
// runtime.Gosched-loops so that another goroutine runs between the library handing a
// buffer to the key and the key reading it; nil otherwise. Set only while no
// operation is running.
var Yield func()

func yield() {
	if y := Yield; y != nil {
		y()
	}
}

// Log collects key-object calls in program order.
type Log struct {
	mu    sync.Mutex
	calls []string
}

func (l *Log) add(format string, a ...interface{}) {
	if l == nil {
		return
	}
	l.mu.Lock()
	l.calls = append(l.calls, fmt.Sprintf(format, a...))
	l.mu.Unlock()
}

func (l *Log) String() string {
	if l == nil {
		return "-"
	}
	l.mu.Lock()
	defer l.mu.Unlock()
	if len(l.calls) == 0 {
		return "-"
	}
	return strings.Join(l.calls, ",")
}

func (l *Log) Calls() []string {
	l.mu.Lock()
	defer l.mu.Unlock()
	return append([]string(nil), l.calls...)
}

func (l *Log) Reset() {
	l.mu.Lock()
	l.calls = nil
	l.mu.Unlock()
}

// ---------------------------------------------------------------------------

// EphCreator supplies ephemeral keys: a fixed secret, a failure, or (nil Secret
// and !Fail) 32 bytes drawn from crypto/rand.Reader like basic.EphemeralKeyCreator.
type EphCreator struct {
	Secret []byte
	Fail   bool
	Read   func(b []byte) error // used when Secret == nil: reads the process randomness source
}

func (c *EphCreator) CreateEphemeralKey() (saltpack.BoxSecretKey, error) {
	if c.Fail {
		return nil, fmt.Errorf("ephemeral key creator failed")
	}
	sec := c.Secret
	if sec == nil {
		sec = make([]byte, 32)
		if err := c.Read(sec); err != nil {
			return nil, err
		}
	}
	return NewBoxSecret(sec, false, nil, c), nil
}

type BoxPublic struct {
	Raw     saltpack.RawBoxKey
	KID     []byte // what ToKID returns (normally Raw[:])
	Hide    bool
	Creator *EphCreator
}

func (k BoxPublic) ToKID() []byte                               { return k.KID }
func (k BoxPublic) ToRawBoxKeyPointer() *saltpack.RawBoxKey     { r := k.Raw; return &r }
func (k BoxPublic) HideIdentity() bool                          { return k.Hide }
func (k BoxPublic) CreateEphemeralKey() (saltpack.BoxSecretKey, error) {
	if k.Creator == nil {
		return nil, fmt.Errorf("no creator")
	}
	return k.Creator.CreateEphemeralKey()
}

func PublicFromRaw(raw []byte, hide bool, c *EphCreator) BoxPublic {
	var r saltpack.RawBoxKey
	copy(r[:], raw)
	return BoxPublic{Raw: r, KID: append([]byte(nil), r[:]...), Hide: hide, Creator: c}
}

type BoxSecret struct {
	Sec [32]byte
	Pub BoxPublic
	Log *Log
}

func NewBoxSecret(sec []byte, hide bool, log *Log, c *EphCreator) *BoxSecret {
	k := &BoxSecret{Log: log}
	copy(k.Sec[:], sec)
	pub, err := curve25519.X25519(k.Sec[:], curve25519.Basepoint)
	if err != nil {
		pub = make([]byte, 32)
	}
	// curve25519.X25519 rejects low-order results; ScalarBaseMult never fails
	var p [32]byte
	curve25519.ScalarBaseMult(&p, &k.Sec)
	_ = pub
	k.Pub = PublicFromRaw(p[:], hide, c)
	return k
}

func (k *BoxSecret) Box(receiver saltpack.BoxPublicKey, nonce saltpack.Nonce, msg []byte) []byte {
	yield()
	k.Log.add("box:%s:%s", Hex(nonce[:]), Hex(msg))
	return box.Seal([]byte{}, msg, (*[24]byte)(&nonce), (*[32]byte)(receiver.ToRawBoxKeyPointer()), &k.Sec)
}

func (k *BoxSecret) Unbox(sender saltpack.BoxPublicKey, nonce saltpack.Nonce, msg []byte) ([]byte, error) {
	yield()
	k.Log.add("unbox:%s:%s", Hex(nonce[:]), Hex(msg))
	ret, ok := box.Open([]byte{}, msg, (*[24]byte)(&nonce), (*[32]byte)(sender.ToRawBoxKeyPointer()), &k.Sec)
	if !ok {
		return nil, saltpack.ErrDecryptionFailed
	}
	return ret, nil
}

func (k *BoxSecret) GetPublicKey() saltpack.BoxPublicKey { return k.Pub }

type Shared struct {
	key [32]byte
	log *Log
}

func (k *BoxSecret) Precompute(peer saltpack.BoxPublicKey) saltpack.BoxPrecomputedSharedKey {
	yield()
	k.Log.add("precompute:%s", Hex(peer.ToRawBoxKeyPointer()[:]))
	s := &Shared{log: k.Log}
	box.Precompute(&s.key, (*[32]byte)(peer.ToRawBoxKeyPointer()), &k.Sec)
	return s
}

func (s *Shared) Box(nonce saltpack.Nonce, msg []byte) []byte {
	yield()
	s.log.add("sbox:%s:%s", Hex(nonce[:]), Hex(msg))
	return box.SealAfterPrecomputation([]byte{}, msg, (*[24]byte)(&nonce), &s.key)
}

func (s *Shared) Unbox(nonce saltpack.Nonce, msg []byte) ([]byte, error) {
	yield()
	s.log.add("sunbox:%s:%s", Hex(nonce[:]), Hex(msg))
	ret, ok := box.OpenAfterPrecomputation([]byte{}, msg, (*[24]byte)(&nonce), &s.key)
	if !ok {
		return nil, saltpack.ErrDecryptionFailed
	}
	return ret, nil
}

// ---------------------------------------------------------------------------

type SigPublic struct{ Key []byte }

func (k SigPublic) ToKID() []byte { return k.Key }
func (k SigPublic) Verify(msg, sig []byte) error {
	yield()
	if len(k.Key) != ed25519.PublicKeySize || !ed25519.Verify(k.Key, msg, sig) {
		return saltpack.ErrBadSignature
	}
	return nil
}

type SigSecret struct {
	Seed []byte
	priv ed25519.PrivateKey
	Log  *Log
}

func NewSigSecret(seed []byte, log *Log) *SigSecret {
	return &SigSecret{Seed: append([]byte(nil), seed...), priv: ed25519.NewKeyFromSeed(seed), Log: log}
}

func (k *SigSecret) Sign(msg []byte) ([]byte, error) {
	yield()
	k.Log.add("sign:%s", Hex(msg))
	return ed25519.Sign(k.priv, msg), nil
}

func (k *SigSecret) PublicBytes() []byte { return []byte(k.priv.Public().(ed25519.PublicKey)) }
func (k *SigSecret) GetPublicKey() saltpack.SigningPublicKey {
	return SigPublic{Key: k.PublicBytes()}
}

// ---------------------------------------------------------------------------

// Ring is a configurable keyring; the Spec* strings are the tokens the model's
// `mkKeyring` understands, so both sides are built from the same description.
type Ring struct {
	Secrets []*BoxSecret
	LS      string // std | none | fix:<int>:<secrethex>
	LP      string // std | nil | only:<hex,...>
	IE      string // std | len32 | nil
	LSig    string // std | nil | only:<hex,...>
	Creator *EphCreator
	Log     *Log
}

func to32(k []byte) []byte {
	out := make([]byte, 32)
	copy(out, k)
	return out
}

func (r *Ring) CreateEphemeralKey() (saltpack.BoxSecretKey, error) {
	return r.Creator.CreateEphemeralKey()
}

func (r *Ring) LookupBoxSecretKey(kids [][]byte) (int, saltpack.BoxSecretKey) {
	switch {
	case r.LS == "std":
		for i, kid := range kids {
			for _, s := range r.Secrets {
				if bytes.Equal(s.Pub.Raw[:], to32(kid)) {
					return i, s
				}
			}
		}
		return -1, nil
	case r.LS == "none":
		return -1, nil
	case strings.HasPrefix(r.LS, "fix:"):
		parts := strings.Split(r.LS, ":")
		var i int
		fmt.Sscanf(parts[1], "%d", &i)
		sec, _ := hex.DecodeString(parts[2])
		return i, NewBoxSecret(sec, false, r.Log, r.Creator)
	}
	panic("bad LS spec " + r.LS)
}

func only(spec string, kid []byte) bool {
	for _, h := range strings.Split(strings.TrimPrefix(spec, "only:"), ",") {
		if h == Hex(kid) {
			return true
		}
	}
	return false
}

func (r *Ring) LookupBoxPublicKey(kid []byte) saltpack.BoxPublicKey {
	switch {
	case r.LP == "std":
		return PublicFromRaw(to32(kid), false, r.Creator)
	case r.LP == "nil":
		return nil
	case strings.HasPrefix(r.LP, "only:"):
		if only(r.LP, kid) {
			return PublicFromRaw(kid, false, r.Creator)
		}
		return nil
	}
	panic("bad LP spec " + r.LP)
}

func (r *Ring) GetAllBoxSecretKeys() []saltpack.BoxSecretKey {
	out := make([]saltpack.BoxSecretKey, len(r.Secrets))
	for i, s := range r.Secrets {
		out[i] = s
	}
	return out
}

func (r *Ring) ImportBoxEphemeralKey(kid []byte) saltpack.BoxPublicKey {
	switch r.IE {
	case "std":
		return PublicFromRaw(to32(kid), false, r.Creator)
	case "len32":
		if len(kid) != 32 {
			return nil
		}
		return PublicFromRaw(kid, false, r.Creator)
	case "nil":
		return nil
	}
	panic("bad IE spec " + r.IE)
}

func (r *Ring) LookupSigningPublicKey(kid []byte) saltpack.SigningPublicKey {
	switch {
	case r.LSig == "std":
		return SigPublic{Key: to32(kid)}
	case r.LSig == "nil":
		return nil
	case strings.HasPrefix(r.LSig, "only:"):
		if only(r.LSig, kid) {
			return SigPublic{Key: append([]byte(nil), kid...)}
		}
		return nil
	}
	panic("bad LSig spec " + r.LSig)
}

// Spec renders the keyring as the model's tokens: secrets ls lp ie lsig.
func (r *Ring) Spec() string {
	secs := make([][]byte, len(r.Secrets))
	for i, s := range r.Secrets {
		secs[i] = s.Sec[:]
	}
	return fmt.Sprintf("%s %s %s %s %s", HexList(secs), r.LS, r.LP, r.IE, r.LSig)
}

var _ saltpack.SigncryptKeyring = (*Ring)(nil)
