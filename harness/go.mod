module verifharness

go 1.22.0

toolchain go1.23.5

require (
	github.com/keybase/go-codec v0.0.0-20180928230036-164397562123
	github.com/keybase/saltpack v0.0.0
	golang.org/x/crypto v0.32.0
	golang.org/x/tools v0.29.0
)

require (
	golang.org/x/mod v0.22.0 // indirect
	golang.org/x/sync v0.10.0 // indirect
	golang.org/x/sys v0.29.0 // indirect
)

replace github.com/keybase/saltpack => /repo
