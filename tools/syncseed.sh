#!/bin/bash
# bring the scratch verification worktree /tmp/vseed to /verif's HEAD (keeps its untracked seeded/<tag> results)
sha=$(git -C /verif rev-parse HEAD)
git -C /tmp/vseed reset -q --hard $sha && echo "vseed at $sha"
