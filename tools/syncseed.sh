#!/bin/bash
# bring the scratch verification worktree /tmp/vseed to /verif's HEAD (creating it, with a copy of the build output,
# if it does not exist; keeps its untracked seeded/<tag> results)
sha=$(git -C /verif rev-parse HEAD)
if [ ! -d /tmp/vseed ]; then
  git -C /verif worktree add -q --detach /tmp/vseed "$sha"
  cp -r /verif/lean/.lake /tmp/vseed/lean/.lake 2>/dev/null
  mkdir -p /tmp/vseed/harness/bin && cp /verif/harness/bin/* /tmp/vseed/harness/bin/ 2>/dev/null
  cp -r /verif/lean/Saltpack/Audit /tmp/vseed/lean/Saltpack/ 2>/dev/null
fi
git -C /tmp/vseed reset -q --hard "$sha" && echo "vseed at $sha"
