#!/bin/bash
# Unchanged-tree sweep: ./tools/sweep.sh <tier> <seed> [<seed> …]
# Under `vp run --with-repo` it uses the snapshot of /repo's HEAD ($VP_RUN_REPO), so seeded patches being
# tried in /repo meanwhile cannot disturb it. Prints one line per (property, seed).
tier=$1; shift
export GOFLAGS=-mod=mod GOPROXY=off GOSUMDB=off GOTOOLCHAIN=local
[ -n "$VP_RUN_REPO" ] && export VERIF_REPO=$VP_RUN_REPO
cd "$(dirname "$0")/.."
./check --setup > sweep-setup.log 2>&1 || { echo "SETUP FAILED"; tail -30 sweep-setup.log; exit 2; }
bad=0
for seed in "$@"; do
  for p in C01 C02 C03 C04 C05 C06 C07 C08 C09 C10 C11 C12 C13 C14 C15 C16 C17 C18 C19 C20; do
    s=$(date +%s)
    VERIF_SEED=$seed ./check $p $tier > sweep-$p-$seed.log 2>&1; rc=$?
    e=$(( $(date +%s) - s ))
    echo "seed=$seed $p rc=$rc ${e}s $(grep -c VIOLATION sweep-$p-$seed.log) violations; $(grep '^corr ' sweep-$p-$seed.log | tail -1)"
    [ $rc -ne 0 ] && { bad=1; grep -E "VIOLATION|disagree|predicate" sweep-$p-$seed.log | head -8; }
  done
done
exit $bad
