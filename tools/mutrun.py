#!/usr/bin/env python3
"""
Mutation sweep (validation of the checks, not a check itself).

  tools/mutrun.py phase1 [--workers N] [--ids a-b]   every syntactic mutant (harness/cmd/mutate): build, pinned test suite
  tools/mutrun.py phase2 [--workers N]               mutants that SURVIVE the test suite: the property checks whose
                                                      anchor files contain the mutated file (+ a fixed core set), quick tier
Scratch copies only: /tmp/mut/r<k> (git worktrees of /repo) and /tmp/mut/v<k> (worktrees of /verif with a copied
.lake); /repo is never touched.  Results: /tmp/mut/phase1.jsonl, /tmp/mut/phase2.jsonl; summary with `report`.
"""
import json, os, re, subprocess, sys, shutil, threading, queue, time

ENV = dict(os.environ, GOFLAGS="-mod=mod", GOPROXY="off", GOSUMDB="off", GOTOOLCHAIN="local")
MUT = "/tmp/mut"
MUTATE = "/verif/harness/bin/mutate"
CORE = ["C15", "C14", "C13"]


def sh(cmd, cwd=None, timeout=900, env=None):
    try:
        p = subprocess.run(cmd, cwd=cwd, env=env or ENV, shell=isinstance(cmd, str), stdout=subprocess.PIPE, stderr=subprocess.STDOUT, text=True, timeout=timeout)
        return p.returncode, p.stdout
    except subprocess.TimeoutExpired as e:
        return 124, "TIMEOUT " + (e.stdout or "")[-500:] if isinstance(e.stdout, str) else "TIMEOUT"


def sites():
    rc, out = sh([MUTATE, "-repo", "/repo", "-list"])
    res = []
    for l in out.strip().split("\n"):
        i, loc, kind = l.split("\t")
        res.append((int(i), loc, kind))
    return res


def props_for(path):
    ps = set(CORE)
    for l in open("/verif/properties.jsonl"):
        p = json.loads(l)
        if path in p["anchors"]["files"]:
            ps.add(p["id"])
    return sorted(ps)


def ensure_repo(k):
    d = "%s/r%d" % (MUT, k)
    if not os.path.isdir(d):
        sh(["git", "-C", "/repo", "worktree", "add", "--detach", d, os.environ.get("MUT_REPO_SHA") or "HEAD"])
    sh("git checkout -q -- . && git clean -fdq", cwd=d)
    return d


def ensure_verif(k):
    d = "%s/v%d" % (MUT, k)
    if not os.path.isdir(d):
        sh(["git", "-C", "/verif", "worktree", "add", "--detach", d, os.environ.get("MUT_VERIF_SHA") or "HEAD"])
        shutil.copytree("/verif/lean/.lake", d + "/lean/.lake")
        os.makedirs(d + "/harness/bin", exist_ok=True)
    else:
        sha = os.environ.get("MUT_VERIF_SHA") or subprocess.run(["git", "-C", "/verif", "rev-parse", "HEAD"], capture_output=True, text=True).stdout.strip()
        sh(["git", "reset", "-q", "--hard", sha], cwd=d)
    return d


def phase1(workers, ids):
    os.makedirs(MUT, exist_ok=True)
    done = set()
    out_path = MUT + "/phase1.jsonl"
    if os.path.exists(out_path):
        for l in open(out_path):
            done.add(json.loads(l)["id"])
    q = queue.Queue()
    for s in sites():
        if s[0] not in done and (ids is None or ids[0] <= s[0] <= ids[1]):
            q.put(s)
    lock = threading.Lock()

    def work(k):
        d = ensure_repo(k)
        env = dict(ENV, GOCACHE="%s/gocache%d" % (MUT, k))
        while True:
            try:
                i, loc, kind = q.get_nowait()
            except queue.Empty:
                return
            sh("git checkout -q -- .", cwd=d)
            rc, o = sh([MUTATE, "-repo", d, "-apply", str(i)])
            rec = dict(id=i, loc=loc, kind=kind)
            rc, o = sh("go build ./... && go build -tags verif ./...", cwd=d, env=env, timeout=300)
            rec["builds"] = rc == 0
            if rc == 0:
                t0 = time.time()
                rc, o = sh("go test -vet=off -count=1 -timeout 4m ./... 2>&1 | tail -15", cwd=d, env=env, timeout=400)
                rec["tests_pass"] = ("FAIL" not in o) and ("panic" not in o) and o.count("ok  ") >= 3 and "TIMEOUT" not in o
                rec["test_s"] = round(time.time() - t0, 1)
                if not rec["tests_pass"]:
                    rec["tail"] = o[-300:]
            with lock:
                open(out_path, "a").write(json.dumps(rec) + "\n")
            sh("git checkout -q -- .", cwd=d)

    ts = [threading.Thread(target=work, args=(k,)) for k in range(workers)]
    [t.start() for t in ts]
    [t.join() for t in ts]


def phase2(workers):
    surv = [json.loads(l) for l in open(MUT + "/phase1.jsonl")]
    surv = [r for r in surv if r.get("builds") and r.get("tests_pass")]
    out_path = MUT + "/phase2.jsonl"
    done = set()
    if os.path.exists(out_path):
        for l in open(out_path):
            done.add(json.loads(l)["id"])
    q = queue.Queue()
    for r in surv:
        if r["id"] not in done:
            q.put(r)
    lock = threading.Lock()

    def work(k):
        d = ensure_repo(20 + k)
        v = ensure_verif(10 + k)
        env = dict(ENV, GOCACHE="%s/gocache%d" % (MUT, k), VERIF_REPO=d)
        while True:
            try:
                r = q.get_nowait()
            except queue.Empty:
                return
            sh("git checkout -q -- .", cwd=d)
            # the mutant is identified by (location, kind): ids are ordinals of the tree they were listed on
            rc, lst = sh([MUTATE, "-repo", d, "-list"])
            mid = None
            for l in lst.strip().split("\n"):
                i, loc, kind = l.split("\t")
                if loc == r["loc"] and kind == r["kind"]:
                    mid = i
                    break
            if mid is None:
                with lock:
                    open(out_path, "a").write(json.dumps(dict(r, checks={}, caught_by=["(site no longer exists)"])) + "\n")
                continue
            sh([MUTATE, "-repo", d, "-apply", mid])
            path = r["loc"].split(":")[0]
            rec = dict(r, checks={})
            for p in props_for(path):
                rc, o = sh(["./check", p, "quick"], cwd=v, env=env, timeout=1500)
                viol = [l for l in o.split("\n") if l.startswith("VIOLATION")]
                failing = ""
                m = re.search(r"replay=(\S+)", o)
                if m and os.path.exists(m.group(1)):
                    try:
                        failing = (json.load(open(m.group(1))).get("failing_input") or "")[:300]
                    except Exception:
                        pass
                rec["checks"][p] = dict(exit=rc, violations=len(viol), nofail=sum("no-failing-input-found" in l for l in viol), failing=failing)
                shutil.rmtree(v + "/replays", ignore_errors=True)
            rec["caught_by"] = [p for p, c in rec["checks"].items() if c["exit"] != 0]
            with lock:
                open(out_path, "a").write(json.dumps(rec) + "\n")
            sh("git checkout -q -- .", cwd=d)
            sh("git checkout -q -- . ", cwd=v)

    ts = [threading.Thread(target=work, args=(k,)) for k in range(workers)]
    [t.start() for t in ts]
    [t.join() for t in ts]


def report():
    p1 = [json.loads(l) for l in open(MUT + "/phase1.jsonl")]
    nb = sum(1 for r in p1 if not r.get("builds"))
    kt = sum(1 for r in p1 if r.get("builds") and not r.get("tests_pass"))
    sv = [r for r in p1 if r.get("builds") and r.get("tests_pass")]
    print("mutants %d: do not build %d, killed by the pinned suite %d, survive the suite %d" % (len(p1), nb, kt, len(sv)))
    if os.path.exists(MUT + "/phase2.jsonl"):
        p2 = [json.loads(l) for l in open(MUT + "/phase2.jsonl")]
        c = [r for r in p2 if r["caught_by"]]
        print("phase 2: %d examined, caught by the checks %d, not caught %d" % (len(p2), len(c), len(p2) - len(c)))
        for r in p2:
            if not r["caught_by"]:
                print("  SURVIVES", r["id"], r["loc"], r["kind"], "checked:", ",".join(r["checks"]))


if __name__ == "__main__":
    a = sys.argv[1:]
    w = int(a[a.index("--workers") + 1]) if "--workers" in a else 4
    ids = None
    if "--ids" in a:
        lo, hi = a[a.index("--ids") + 1].split("-")
        ids = (int(lo), int(hi))
    {"phase1": lambda: phase1(w, ids), "phase2": lambda: phase2(w), "report": report}[a[0]]()
